# C18 — footprints of the operations of the VALUE classes (Integer, Rational, RecInt ruint / rint / rmint and the small integer
# domains) on PROCESS-WIDE state: class statics, namespace statics, function-local statics.
#
# "Independent big integers, rationals and fixed-precision integers may likewise be operated on concurrently": the operands are
# thread-private, so the only state two threads can share is static storage.  This generator lists EVERY function of the library
# that has a body in the translation unit
#       <every .C file of src/kernel/{gmp++,integer,rational,memory,system,bstruct}, listed from /repo on every run>
#       + harness/c18_inst.C (which includes harness/c18_values.h, the operation families the thread harness runs)
# (constructors, destructors, operators, conversion functions, static members, free functions; const or not) together with the
# statics it writes / reads, directly or through callees whose bodies are in the dump.  The access-path analysis is the one of
# harness/c16_objmodel.py (imported, not copied); the dump is made with -DRecInt=Givaro_RecInt so that clang's single
# -ast-dump-filter=Givaro keeps both namespaces.
# Output: JSON (cached by source hash) and coq/C16/gen/RaceFreeGen.v (consumed by coq/C16/RaceFreeValues.v).
import json, os, re, sys, time, subprocess

HERE = os.path.dirname(os.path.abspath(__file__))
ROOT = os.path.dirname(HERE)
sys.path.insert(0, os.path.join(ROOT, "lib"))
sys.path.insert(0, HERE)
import vf
import c16_objmodel as om

INST = os.path.join(HERE, "c18_inst.C")
LIB_DIRS = ["src/kernel/gmp++", "src/kernel/integer", "src/kernel/rational", "src/kernel/memory", "src/kernel/system", "src/kernel/bstruct",
            "src/library/poly1", "src/library/tools"]          # (givindeter.C, givdegree.C, givops.C: Indeter / Degree members used by Poly1Dom)
SKIP_C = {"gmp++_int.C"}              # only #includes the other gmp++_int_*.C files
VERSION = "c18-values-v21"

# ---- what a write to a static may be.  Anything that is not matched here is reported (site = the function, klass = the statics).
# (regular expression on "Class::function", set of statics or None = any, category, reason)
RND = {"randstate", "rand_gen", "_seed", "_g", "libc:rand", "libc:srand", "libc:random", "libc:srandom", "gmp_randseed", "libc:gmp_randseed", "libc:gmp_randseed_ui"}
DOCUMENTED_WRITERS = [
    # ---- setters of documented process-wide parameters (must not be called while other threads compute)
    (r"^Rational::Set(No)?Reduce$", {"flags"}, "setter", "documented user-level switch of the reduction mode (Rational::flags)"),
    (r"^rmint::init_module$", {"p", "p1", "r"}, "setter", "documented module setter of rmint<K,MG> (the modulus is a class static)"),
    (r"^StaticElement::setDomain$", {"_domain"}, "setter", "documented: the domain of StaticElement<D> is a class static set by setDomain"),
    # ---- the random ENTRY POINTS the property excludes ("random state"): by NAME.  Nothing else may touch a generator's state: an
    #      arithmetic / init / convert / comparison operation that does is an offender
    (r"^(Givaro_RecInt::)?(srand|rand)$|^(ruint|rint|rmint)::(rand|random)$", RND, "random-entry-point", "RecInt rand / srand / random (random state: excluded by the property text)"),
    (r"^Integer::(seeding|random\w*|nonzerorandom\w*|RandBool|randstate|randomInit|random_generator)$", RND, "random-entry-point", "Integer::random* / seeding (GMP random state: excluded by the property text)"),
    (r"^GivRandom::", RND, "random-entry-point", "GivRandom: a generator object advances its own seed (random state, not a domain)"),
    (r"RandIter(<[^:]*)?::", RND, "random-entry-point", "random iterators (ModularRandIter, GeneralRingRandIter, ...): generator objects"),
    (r"::(random|nonzerorandom|seeding|random_\w+|nonzerorandom_\w+)$", RND, "random-entry-point", "the members random / nonzerorandom / seeding of a domain (randomised by name)"),
    # ---- randomised ALGORITHMS (domains parameterised by a RandIter; Pollard / Lenstra / Cantor-Zassenhaus / random irreducible):
    #      documented as randomised by their class; listed in full in the evidence
    (r"^(IntFactorDom|IntNumTheoDom|IntRSADom)::", RND, "randomised-algorithm", "integer factorisation / number-theory domain <RandIter>: Pollard rho, Lenstra, primitive roots via factorisation"),
    (r"^Poly1FactorDom::", RND, "randomised-algorithm", "polynomial factorisation domain <.., RandIter>: Cantor-Zassenhaus, random irreducible / primitive polynomials (generator member _g)"),
    # ---- construction of a field draws a random irreducible polynomial / generator (C16: NON_ISO classes); a constructor is not a
    #      const operation of a shared object
    (r"^(GFqDom|GFqExtFast|GFqExt|Modular)::(read|builddoubletables)$", RND, "randomised-construction", "non-const members that REBUILD the field (read(istream&) = construct from the stream, builddoubletables = constructor helper)"),
    (r"^(GFqDom|GFqExtFast|GFqExt|Extension|Modular)::(GFqDom|GFqExtFast|GFqExt|Extension|Modular)$", RND, "randomised-construction", "constructors of table / extension fields: random irreducible polynomial, primitive root found through factorisation; Modular<Log16>(p) picks a generator with rand()"),
    # ---- allocator and start-up
    (r"^(GivMMFreeList|GivMMRefCount|GivMemory|BlocFreeList|GivMMInfo|GivaroMM)::", None, "allocator", "GivMM free lists (process-wide allocator state: excluded by the property text)"),
    (r"^(GivaroMain|GivaroAppli|GivModule|InitAfter|ObjectInit)::", None, "startup", "library start-up / shut-down (GivaroMain::Init/End, module table): single-threaded by contract"),
    (r"^(Integer|Rational|Bits|GivMMFreeList|GivMMRefCount|GivaroMM|IntPrimeDom|Degree|Indeter|GivModule)::(Init|End)$", None, "startup", "module Init/End functions registered with GivModule (called by GivaroMain::Init/End only)"),
]
# statics that are not state of the values: I/O streams, locale
IGNORED = set(om.IGNORED_GLOBALS)
EXCLUDED = dict(om.EXCLUDED_GLOBALS)
EXCLUDED["tabphy"] = "allocator statistics of the free lists (process-wide allocator state)"
EXCLUDED["info"] = "allocator statistics of the free lists (process-wide allocator state)"
RANDOM_STATICS = {"randstate", "rand_gen", "libc:rand", "libc:srand", "libc:random", "libc:srandom", "libc:drand48", "libc:lrand48", "libc:srand48",
                  "libc:gmp_randseed", "libc:gmp_randseed_ui"}


def lib_sources():
    out = []
    for d in LIB_DIRS:
        p = os.path.join(vf.REPO, d)
        try:
            for f in sorted(os.listdir(p)):
                if f.endswith(".C") and f not in SKIP_C:
                    out.append(os.path.join(p, f))
        except OSError:
            pass
    return out


def cache_key():
    return vf.file_hash(vf.repo_sources() + [INST, om.INST, os.path.join(HERE, "c18_values.h"), os.path.abspath(__file__), om.__file__], VERSION)


# explicit instantiations (every non-template member gets a body in the dump) of rings that are rarely instantiated
EXPLICIT = ["Modular<int8_t>", "Modular<int16_t>", "Modular<uint8_t>", "Modular<uint16_t>", "Modular<int32_t, int64_t>", "Modular<uint32_t, uint64_t>",
            "Modular<int64_t, uint64_t>", "Modular<float, double>", "Modular<RecInt::ruint<6> >", "Modular<RecInt::ruint<7>, RecInt::ruint<8> >",
            "Modular<RecInt::rint<7> >", "ModularExtended<double>", "ModularExtended<float>", "ZRing<Integer>", "ZRing<double>", "ZRing<int64_t>"]


def explicit_lines(with_domains):
    have = set()
    if with_domains:
        try:
            txt = re.sub(r"//[^\n]*", "", open(om.INST).read())
            have = set(re.sub(r"\s+", "", m) for m in re.findall(r"template\s+(?:class|struct)\s+([^;]+);", txt))
        except OSError:
            pass
    return ["    template class %s;" % x for x in EXPLICIT if re.sub(r"\s+", "", x) not in have]


def dump_ast(cdir, with_domains=True, explicit=True):
    """with_domains: also the instantiation unit of the object model (harness/c16_inst.C, every domain class of C16/C18)"""
    tu = os.path.join(cdir, "tu-%d.C" % os.getpid())
    with open(tu, "w") as f:
        for s in lib_sources():
            f.write('#include "%s"\n' % s)
        if with_domains:
            f.write('#include "%s"\n' % om.INST)
        f.write('#include "%s"\n' % INST)
        if explicit:
            f.write("namespace Givaro {\n%s\n}\n" % "\n".join(explicit_lines(with_domains)))
    cmd = ["clang++", "-std=gnu++11"] + vf.inc_flags() + ["-I" + HERE, "-DNDEBUG", "-DHAVE_CONFIG_H", "-D" + vf.GUARD, "-DRecInt=Givaro_RecInt", "-w",
           "-fsyntax-only", "-Xclang", "-ast-dump=json", "-Xclang", "-ast-dump-filter=Givaro", tu]
    try:
        p = subprocess.run(cmd, stdout=subprocess.PIPE, stderr=subprocess.PIPE, universal_newlines=True, errors="replace", timeout=1500)
    except subprocess.TimeoutExpired:
        return None, "timeout", True
    finally:
        pass
    try:
        os.remove(tu)
    except OSError:
        pass
    if p.returncode != 0:
        return None, "clang failed on the value-class instantiation unit:\n" + p.stderr[-4000:], False
    s = p.stdout
    dec = json.JSONDecoder()
    i, n, objs = 0, len(s), []
    while i < n:
        while i < n and s[i] in " \n\r\t":
            i += 1
        if i >= n:
            break
        o, i = dec.raw_decode(s, i)
        objs.append(o)
    return objs, p.stderr[-1000:], False


# C library / GMP functions that read-modify-write hidden process-wide state (not thread-safe, or changing a process-wide hook)
UNSAFE_EXTERNALS = {"rand", "srand", "random", "srandom", "drand48", "lrand48", "mrand48", "srand48", "strtok", "localtime", "gmtime", "asctime",
                    "ctime", "setlocale", "strerror", "tmpnam", "mp_set_memory_functions", "__gmp_set_memory_functions", "setenv", "putenv",
                    "gmp_randseed", "gmp_randseed_ui"}


# ---- callees WITHOUT a body in the unit.  (a) declared in the dump (namespace Givaro / RecInt = the repository) and not listed here:
# a hole in the translator's view of the repository -> broken obligation with the list.  (b) not in the dump (libstdc++, GMP, libc):
# explicit effect table: effect-free on process-wide state (their writes go to their operands), unsafe (UNSAFE_EXTERNALS: a write
# to hidden state), or unknown (listed in full in the evidence)
REPO_NOBODY_OK = {
    ("GivaroAppli::run", "main"): "pure virtual: the user's main",
    ("GivModule::InitApp", "f_init"): "call through the module table: the registered X::Init functions, each decided on its own (start-up)",
    ("GivModule::EndApp", "f_end"): "call through the module table: the registered X::End functions (shut-down)",
    ("GivaroMM::destroy", "bloc"): "pseudo-destructor call on the elements of the block being released (operand)",
}
EXTERNAL_EFFECT_FREE = re.compile(
    r"^(__gmp[zqnf]_\w+|__gmp_\w*printf|__builtin_\w+|operator.*|size|begin|end|rbegin|rend|cbegin|cend|resize|reserve|push_back|pop_back|emplace_back|insert|erase|clear|"
    r"empty|front|back|data|capacity|assign|swap|at|find|count|c_str|str|length|substr|append|compare|to_string|get_mpz_t|get_str|get_ui|get_si|get_d|set_str|"
    r"fmod|fmodf|fabs|floor|ceil|abs|labs|llabs|sqrt|pow|log|log2|exp|ldexp|frexp|modf|round|trunc|fma|isnan|isinf|min|max|move|forward|make_pair|"
    r"memcpy|memmove|memset|memcmp|strlen|strcmp|strncmp|strcpy|strtol|strtoul|strtod|atoi|atol|isdigit|isspace|isalpha|toupper|tolower|"
    r"malloc|free|calloc|realloc|flags|width|precision|fill|setf|unsetf|good|eof|fail|bad|peek|get|putback|ignore|put|write|read|flush|getline|tellg|seekg|rdbuf|"
    r"get_z_range|get_z_bits|ilogb|timespec_get|reverse|reverse_copy|copy|fill_n|sort|accumulate|distance|advance|getrusage|gettimeofday|clock|time|seed|name|what|load|store|fetch_add|fetch_sub|exchange|"
    r"compare_exchange_weak|compare_exchange_strong|lock|unlock|first|second|top|push|pop|numeric_limits|digits|epsilon|exit|abort|__assert_fail|printf|fprintf|sprintf|snprintf|"
    r"~\w+|allocate|deallocate|construct|destroy|max_size|get_allocator|endl|ws|hex|dec|oct|setw|setprecision|setfill|sgn|fits_\w+|swap_ranges|equal|lexicographical_compare|"
    r"uninitialized_\w+|__throw_\w+|isleq|iterator|const_iterator|base|operator_new|operator_delete)$")


class VFnInfo(om.FnInfo):
    """the access-path classification of c16_objmodel (parentheses looked through, unresolvable receivers are operands, local
    pointer / reference aliases of `this` and of statics substituted) + calls to thread-unsafe externals as writes to hidden state"""

    def _visit(self, n, parent):
        if n.get("kind") in ("CallExpr", "CXXMemberCallExpr", "CXXOperatorCallExpr"):
            ks = om.kids(n)
            cname = om._callee_name(ks[0]) if ks else None
            if cname in UNSAFE_EXTERNALS:
                cid, _ = om._callee_id(n)
                if cid is None or self.idx.body(cid) is None:
                    self.effects.append({"kind": "global_write", "var": "libc:" + cname, "type": ""})
        om.FnInfo._visit(self, n, parent)


class VAnalyzer(om.Analyzer):
    def info(self, node):
        i = node["id"]
        if i not in self.fn:
            self.fn[i] = VFnInfo(self.idx, node)
            self.stats["functions"] += 1
        return self.fn[i]


def template_patterns(objs):
    """ids of the function bodies that are uninstantiated template PATTERNS (dependent code: no overload is resolved in them, so
    they cannot be classified; their instantiations are separate bodies in the dump)"""
    pat_cls, pat_fn, later = set(), set(), []

    def rec(n, in_pat):
        k = n.get("kind")
        ks = om.kids(n)
        if k == "ClassTemplatePartialSpecializationDecl":
            in_pat = True
        if in_pat and k in om.CLASS_KINDS and "id" in n:
            pat_cls.add(n["id"])
        if k in om.FUNC_KINDS and "id" in n:
            if in_pat:
                pat_fn.add(n["id"])
            elif n.get("parentDeclContextId"):
                later.append(n)
        if k == "ClassTemplateDecl":
            first = True
            for c in ks:
                if c.get("kind") == "CXXRecordDecl" and first:
                    first = False
                    rec(c, True)
                else:
                    rec(c, in_pat)
            return
        if k == "FunctionTemplateDecl":
            first = True
            for c in ks:
                if c.get("kind") in om.FUNC_KINDS and first:
                    first = False
                    rec(c, True)
                else:
                    rec(c, in_pat)
            return
        for c in ks:
            rec(c, in_pat)
    for o in objs:
        rec(o, False)
    for n in later:                 # out-of-line definition of a member of a class template
        if n["parentDeclContextId"] in pat_cls:
            pat_fn.add(n["id"])
    return pat_fn, pat_cls


# ---- accesses to std::atomic objects (shared reference counts): WHICH operation, in evaluation order
ATOMIC_RMW = {"fetch_add", "fetch_sub", "fetch_and", "fetch_or", "fetch_xor", "exchange", "compare_exchange_weak", "compare_exchange_strong",
              "operator++", "operator--", "operator+=", "operator-=", "operator&=", "operator|=", "operator^="}


def atomic_accesses(fnnode, fi):
    """[(kind, counter)] for the body of one function, post-order (= evaluation order of `a.store(a.load() + 1)` and `a = a + 1`):
    kind 'rmw'   one atomic read-modify-write (fetch_add / fetch_sub / ++ / -- / += / exchange / compare_exchange ...)
         'load'  load() or the implicit conversion to the value type
         'store' store() or operator=  -- an update made of a load and a store is NOT one atomic operation"""
    out = []

    def obj_is_atomic(e):
        return e is not None and "atomic" in om.qt(e)

    def cname(e):
        p = om.access_path(e, fi) if e is not None else None
        if p is None:
            return "?"
        return (p.members[0] if p.members else p.name) or "?"

    def rec(n):
        for c in om.kids(n):
            rec(c)
        k = n.get("kind")
        ks = om.kids(n)
        if k == "CXXMemberCallExpr" and ks and ks[0].get("kind") == "MemberExpr":
            obj = om.kids(ks[0])[0] if om.kids(ks[0]) else None
            nm = ks[0].get("name") or ""
            if obj_is_atomic(obj):
                weak = nm in ("fetch_sub",) and re.search(r"memory_order_(relaxed|consume|acquire|release)\b", json.dumps(ks[1:]))
                kind = "decweak" if weak else "rmw" if nm in ATOMIC_RMW else "store" if nm in ("store", "operator=") else "load" if (nm == "load" or nm.startswith("operator ")) else None
                if kind:
                    out.append((kind, cname(obj)))
        elif k == "CXXOperatorCallExpr" and len(ks) >= 2:
            nm = om._callee_name(ks[0]) or ""
            if obj_is_atomic(ks[1]) and (nm in ATOMIC_RMW or nm == "operator="):
                out.append(("rmw" if nm in ATOMIC_RMW else "store", cname(ks[1])))
    for c in om.kids(fnnode):
        if c.get("kind") in ("CompoundStmt", "CXXCtorInitializer"):
            rec(c)
    return out


def base_name(fn):
    while re.search(r"<[^<>]*>", fn):
        fn = re.sub(r"<[^<>]*>", "", fn)
    return fn


def owner_chain(idx, node, nsmap):
    """('Class' or namespace path, display)"""
    c = idx.cls_of.get(node["id"])
    if c is not None:
        ta = [om.norm(a) for a in idx.targs(c)] if c.get("kind") == "ClassTemplateSpecializationDecl" else []
        return (c.get("name") or "?") + ("<%s>" % ",".join(ta) if ta else "")
    return nsmap.get(node["id"]) or nsmap.get(node.get("previousDecl")) or ""


def walk_namespaces(objs):
    """function id -> innermost namespace name (free functions); class id -> template args string"""
    nsmap = {}

    def rec(n, ns):
        k = n.get("kind")
        if k == "NamespaceDecl":
            ns = n.get("name") or ns
        if k in om.FUNC_KINDS and "id" in n:
            nsmap.setdefault(n["id"], ns)
        for c in om.kids(n):
            rec(c, ns)
    for o in objs:
        rec(o, o.get("name") if o.get("kind") == "NamespaceDecl" else "")
    return nsmap


def classify_effects(effects, const_method=False):
    """summary effects -> sorted list of (Coq constructor, static name) + via text"""
    out, via = [], {}
    for e in effects:
        k = e["kind"]
        if k == "own_write" and const_method and e.get("path"):
            # a CONST member writing a member of its own object (mutable / cast dropping const / through a pointer member): the
            # object may be shared (a ring, or a constant such as Integer::one)
            nm = e["path"][0]
            t = ("WOwn", nm)
        elif k == "static_local":
            if not (e.get("decl") or e.get("write")):
                continue
            nm = e["var"]
            t = ("WRandom", nm) if nm in RANDOM_STATICS else (("WStaticInit", nm) if (e.get("decl") or e.get("init")) else ("WStaticLocal", nm))
        elif k == "global_write":
            nm = e["var"]
            if nm in IGNORED:
                continue
            t = ("RExcluded", nm) if nm in EXCLUDED else (("WRandom", nm) if nm in RANDOM_STATICS else ("WGlobal", nm))
        elif k == "global_read":
            nm = e["var"]
            if nm in IGNORED:
                continue
            t = ("RExcluded", nm) if nm in EXCLUDED else ("RGlobal", nm)
        else:
            continue          # writes to the object itself / to operands: thread-private by the property's premise
        if t not in out:
            out.append(t)
            via[t] = " <- ".join(e.get("via", [])[-3:])
    plain = {t[1] for t in out if t[0] == "WStaticLocal"}
    out = [t for t in out if not (t[0] == "WStaticInit" and t[1] in plain)]
    return sorted(out), via


def documented(fn, written):
    """(category, reason) if every static in `written` is one fn is documented to write, else None"""
    for rx, names, cat, why in DOCUMENTED_WRITERS:
        if re.search(rx, base_name(fn)) and (names is None or set(written) <= names):
            return cat, why
    return None


def build(log=None):
    """returns (result dict, error text or None, inconclusive?)"""
    t0 = time.time()
    cdir = vf.mkdir(os.path.join(vf.CACHE, "c18-values"))
    key = cache_key()
    cp = os.path.join(cdir, key + ".json")
    if os.path.exists(cp):
        try:
            j = json.load(open(cp))
            j["meta"]["cached"] = True
            j["meta"]["seconds"] = round(time.time() - t0, 2)
            return j, None, False
        except Exception:
            pass
    objs, lg, timed_out = dump_ast(cdir, True, True)
    domains, explicit = True, True
    if objs is None and not timed_out:
        objs, lg2, timed_out = dump_ast(cdir, True, False)    # an explicit instantiation of ours clashes with the object model's unit
        explicit = False
    if objs is None and not timed_out:
        objs, lg2, timed_out = dump_ast(cdir, False, True)    # the object model's unit does not compile together with ours: go on without it
        domains, explicit = False, True
        lg = lg2 if objs is None else lg
    if objs is None:
        return None, lg, timed_out
    t1 = time.time()
    idx = om.Index(objs)
    an = VAnalyzer(idx)
    pat_fn, pat_cls = template_patterns(objs)
    nsmap = walk_namespaces(objs)
    ops, seen, npat = [], set(), 0
    fams = {}
    for i, n in idx.decl.items():
        if n.get("kind") not in om.FUNC_KINDS:
            continue
        b = idx.body(i)
        if b is None or b["id"] in seen:
            continue
        seen.add(b["id"])
        if b["id"] in pat_fn or i in pat_fn:
            npat += 1
            continue
        own = owner_chain(idx, b, nsmap)
        if own == "GivaroC18" or (b.get("name") or "").startswith("GivaroC18"):
            if (b.get("name") or "").startswith("fam_"):
                fams[b["id"]] = b
            continue                      # the harness's own functions are entry points, not operations of the library
        ps, is_const = om.split_params(om.qt(b))
        sig = "%s(%s)%s" % (b.get("name") or "?", ",".join(om.norm(x) for x in ps), " const" if is_const else "")
        s = an.summary(b)
        cm = b.get("kind") == "CXXMethodDecl" and is_const and b.get("storageClass") != "static"
        eff, via = classify_effects(s["effects"], cm)
        # copy constructor / copy assignment: the SOURCE parameter is the shared object; a const member of the source (or of one of its
        # members) that writes through mutable / a cast (a generator drawn from, a lazily filled cache) is a write to the shared object
        cpar = None
        if b.get("kind") == "CXXConstructorDecl" or (b.get("kind") == "CXXMethodDecl" and b.get("name") == "operator="):
            cpar = om.is_copy_param(idx, b, (idx.cls_of.get(b["id"]) or {}).get("name") or "")
        if cpar is not None:
            for cid, recv, cname, _ in an.info(b).calls:
                if recv is None or recv.root != "param" or recv.name != cpar.get("name") or not cid:
                    continue
                cb = idx.body(cid)
                if cb is None:
                    continue
                for e in an.summary(cb)["effects"]:
                    if e["kind"] == "own_write" and e.get("path") is not None:
                        t = ("WOwn", "source:" + ".".join(list(recv.members) + list(e["path"])))
                        if t not in eff:
                            eff.append(t)
                            via[t] = "%s <- %s" % (b.get("name"), " <- ".join(e.get("via", [])[-2:]))
            eff = sorted(eff)
        fn = (own + "::" if own else "") + (b.get("name") or "?")
        ops.append({"fn": fn, "site": (own + "::" if own else "") + sig, "kind": b.get("kind"), "effects": [list(t) for t in eff],
                    "via": {"%s:%s" % t: v for t, v in via.items()}})
        acc = atomic_accesses(b, an.info(b))
        if acc:
            # a constructor other than the copy constructor works on an object nobody shares yet
            fresh = b.get("kind") == "CXXConstructorDecl" and not om.is_copy_param(idx, b, (idx.cls_of.get(b["id"]) or {}).get("name") or "")
            ops[-1]["atomic"] = {"accesses": [list(a) for a in acc], "fresh_object": bool(fresh)}
    # callees without a body
    repo_nobody, ext_free, ext_unknown, ext_unsafe, n_calls = [], {}, {}, {}, 0
    for bid in list(seen):
        b = idx.decl.get(bid) if bid in idx.decl else None
        b = idx.body(bid) if b is not None else None
        if b is None or b["id"] in pat_fn:
            continue
        caller = base_name((owner_chain(idx, b, nsmap) + "::" if owner_chain(idx, b, nsmap) else "") + (b.get("name") or "?"))
        if caller.startswith("GivaroC18") or "::GivaroC18" in caller or caller.startswith("::c16_") or caller.startswith("c16_"):
            continue
        for cid, recv, cname, _ in an.info(b).calls:
            n_calls += 1
            if cname == "<constructor>" or (cid is not None and idx.body(cid) is not None):
                continue
            d = idx.decl.get(cid) if cid is not None else None
            nm = str(cname)
            if d is not None:
                if (caller, d.get("name")) not in REPO_NOBODY_OK:
                    repo_nobody.append("%s -> %s %s %s" % (caller, d.get("kind"), d.get("name"), om.qt(d)[:80]))
            elif nm in UNSAFE_EXTERNALS:
                ext_unsafe[nm] = ext_unsafe.get(nm, 0) + 1
            elif EXTERNAL_EFFECT_FREE.match(nm):
                ext_free[nm] = ext_free.get(nm, 0) + 1
            else:
                ext_unknown[nm] = ext_unknown.get(nm, 0) + 1
    # unique, stable names
    ops.sort(key=lambda o: o["site"])
    cnt = {}
    for o in ops:
        cnt[o["site"]] = cnt.get(o["site"], 0) + 1
        o["uid"] = o["site"] if cnt[o["site"]] == 1 else "%s#%d" % (o["site"], cnt[o["site"]])
    # reachability from the families (which library functions the thread harness actually drives)
    reach = set()

    def visit(node, depth=0):
        if node["id"] in reach or depth > 40:
            return
        reach.add(node["id"])
        for cid, recv, cname, _ in an.info(node).calls:
            b2 = idx.body(cid) if cid else None
            if b2 is not None:
                visit(b2, depth + 1)
    for b in fams.values():
        visit(b)
    meta = {"cached": False, "key": key, "domain_classes_included": domains, "explicit_instantiations": explicit_lines(domains) if explicit else [], "note": (None if (domains and explicit) else "harness/c16_inst.C could not be compiled in the same unit: " + lg[-300:]), "clang_seconds": round(t1 - t0, 2), "seconds": round(time.time() - t0, 2), "ast_objects": len(objs),
            "decls_indexed": len(idx.decl), "functions_with_body": len(ops), "template_patterns_skipped": npat, "families_in_dump": sorted(b.get("name") for b in fams.values()),
            "reachable_from_families": len(reach), "library_sources": [os.path.relpath(p, vf.REPO) for p in lib_sources()],
            "calls_resolved": an.stats["calls_resolved"], "calls_unresolved": an.stats["calls_unresolved"],
            "thread_local_variables": [list(t) for t in tls_statics(objs)], "calls_seen": n_calls, "repo_callees_without_body": sorted(set(repo_nobody)), "external_callees_effect_free_by_table": ext_free,
            "external_callees_unsafe": ext_unsafe, "external_callees_not_in_table": ext_unknown}
    res = {"ops": ops, "meta": meta}
    tmp = cp + ".tmp%d" % os.getpid()
    json.dump(res, open(tmp, "w"))
    os.rename(tmp, cp)
    for old in sorted([os.path.join(cdir, f) for f in os.listdir(cdir) if f.endswith(".json")], key=os.path.getmtime)[:-6]:
        try:
            os.remove(old)
        except OSError:
            pass
    return res, None, False


def writes_of(op):
    return sorted(set(t[1] for t in op["effects"] if t[0] in ("WGlobal", "WStaticLocal", "WOwn")))


def random_of(op):
    return sorted(set(t[1] for t in op["effects"] if t[0] == "WRandom"))


def decide(res):
    """-> (offenders: ops writing a static without being a documented writer, documented: [(op, category, reason)], counts)"""
    off, doc = [], []
    for o in res["ops"]:
        w = writes_of(o) + random_of(o)
        if not w:
            continue
        d = documented(o["fn"], w)
        if d is None:
            off.append(o)            # (also an operation that "only" advances random state: only the NAMED entry points may)
        else:
            doc.append((o, d[0], d[1]))
    return off, doc


def process_wide_statics():
    """the statics a documented setter / seeding function writes: configuration every thread must SEE (one object per process)"""
    out = set()
    for rx, names, cat, why in DOCUMENTED_WRITERS:
        if names and (cat == "setter" or cat.startswith("random")):
            out |= set(n for n in names if not n.startswith("libc:") and n not in ("_seed", "_g", "gmp_randseed"))
    return sorted(out)


def tls_statics(objs):
    """variables of the library with thread storage duration (thread_local / __thread): [(name, owner, tls kind)]"""
    out = []

    def rec(n, owner):
        k = n.get("kind")
        if k in om.CLASS_KINDS or k == "NamespaceDecl" or k in om.FUNC_KINDS:
            owner = n.get("name") or owner
        if k == "VarDecl" and n.get("tls"):
            out.append([n.get("name"), owner or "", n.get("tls")])
        for c in om.kids(n):
            rec(c, owner)
    for o in objs:
        rec(o, "")
    return sorted(set(tuple(x) for x in out))


def tls_offenders(res):
    pw = set(process_wide_statics())
    return sorted(set("%s::%s" % (t[1], t[0]) for t in res["meta"].get("thread_local_variables", []) if t[0] in pw))


def atomic_sites(res):
    return [o for o in res["ops"] if o.get("atomic")]


def atomic_offenders(res):
    """functions that touch a shared atomic counter by anything but a single strong RMW: a store (load + store, `x = x + 1`, blind store:
    lost update), a separate load (the zero test must use the value RETURNED by the decrement: decrement + load = double free), a weakly
    ordered decrement"""
    return [o for o in atomic_sites(res) if not o["atomic"]["fresh_object"] and any(a[0] != "rmw" for a in o["atomic"]["accesses"])]


def emit_coq(res):
    def effstr(t):
        return "%s %s%s" % (t[0], om.coq_str(t[1]), " ViaCast" if t[0] == "WOwn" else "")
    off, doc = decide(res)
    docset = {id(o) for o, _, _ in doc}
    lines = ["(* GENERATED by harness/c18_values.py from the clang JSON AST of the library's .C files + harness/c18_inst.C, compiled against the",
             "   current headers of the repository.  Do not edit: rewritten by every run of checks/C18.py.",
             "   One entry per function body in the dump (Integer, Rational, RecInt, integer domains, allocator, start-up, every instantiated ring /",
             "   field / polynomial domain): the statics it touches and, for const members, the own members written through mutable / casts / pointers. *)",
             "From Coq Require Import String List Bool.", "From C16 Require Import ObjModel RaceFreeValues RaceFreeAtomic.", "From C16.gen Require Import Desc.",
             "Import ListNotations.", "Local Open Scope string_scope.", "",
             "Definition value_ops : list vop := ["]
    ents = []
    for o in res["ops"]:
        ents.append("  {| vo_name := %s; vo_documented := %s; vo_effects := %s |}" % (
            om.coq_str(o["uid"]), "true" if id(o) in docset else "false", om.coq_list([effstr(t) for t in o["effects"]])))
    lines.append(";\n".join(ents))
    lines.append("].")
    lines.append("")
    lines.append("(* the operations that write process-wide state: exactly the documented writers (setters of the documented switches, random")
    lines.append("   generators, allocator, library start-up); re-decided by vm_compute *)")
    lines.append("Definition Decide_values_stmt : Prop := value_static_writers value_ops =\n  %s." % om.coq_list(
        ["(%s, %s)" % (om.coq_str(o["uid"]), om.coq_list([om.coq_str(t[1]) for t in o["effects"] if t[0] in ("WOwn", "WRandom", "WStaticLocal", "WGlobal")]))
         for o in res["ops"] if writes_of(o) or random_of(o)]).replace("; (", ";\n   ("))
    lines.append("Lemma decide_values : Decide_values_stmt.")
    lines.append("Proof. vm_compute. reflexivity. Qed.")
    lines.append("")
    lines.append("(* no operation outside the documented writers writes a static *)")
    lines.append("Definition Decide_values_offenders_stmt : Prop := value_offenders value_ops = %s." % om.coq_list([om.coq_str(o["uid"]) for o in off]))
    lines.append("Lemma decide_values_offenders : Decide_values_offenders_stmt.")
    lines.append("Proof. vm_compute. reflexivity. Qed.")
    lines.append("")
    offl = om.coq_list([om.coq_str(o["uid"]) for o in off])
    lines.append("(* hence every operation of the current source that is neither a documented writer nor in the decided list of offenders (empty, or the")
    lines.append("   known findings of the unchanged tree, named here) satisfies the hypothesis of values_concurrent *)")
    lines.append("Definition SourceOperationsAccepted_stmt : Prop :=")
    lines.append("  forall n o, find_vop value_ops n = Some o -> vo_documented o = false -> ~ In (vo_name o) %s -> accepted value_ops n = true." % offl)
    lines.append("Lemma source_operations_accepted : SourceOperationsAccepted_stmt.")
    lines.append("Proof. exact (fun n o => offenders_list_accepted value_ops _ n o decide_values_offenders). Qed.")
    lines.append("")
    lines.append("(* every function that touches a std::atomic (the shared reference counts): the operations, in evaluation order.  The premise of")
    lines.append("   atomic_counter -- each update is ONE atomic read-modify-write -- read from the source: no update is a store *)")
    ak = {"rmw": "ARmw", "load": "ALoad", "store": "AStore", "decweak": "ADecWeak"}
    lines.append("Definition atomic_sites : list asite := " + om.coq_list(
        ["{| as_name := %s; as_fresh := %s; as_accesses := %s |}" % (om.coq_str(o["uid"]), "true" if o["atomic"]["fresh_object"] else "false",
                                                                       om.coq_list([ak[a[0]] for a in o["atomic"]["accesses"]])) for o in atomic_sites(res)]).replace("; {|", ";\n   {|") + ".")
    lines.append("Definition Decide_atomic_stmt : Prop := atomic_split_updates atomic_sites = %s." % om.coq_list([om.coq_str(o["uid"]) for o in atomic_offenders(res)]))
    lines.append("Lemma decide_atomic : Decide_atomic_stmt.")
    lines.append("Proof. vm_compute. reflexivity. Qed.")
    aoffl = om.coq_list([om.coq_str(o["uid"]) for o in atomic_offenders(res)])
    lines.append("Definition SourceAtomicUpdatesSingleRmw_stmt : Prop :=")
    lines.append("  forall s, In s atomic_sites -> as_fresh s = false -> ~ In (as_name s) %s -> forall a, In a (as_accesses s) -> a = ARmw." % aoffl)
    lines.append("Lemma source_atomic_updates_single_rmw : SourceAtomicUpdatesSingleRmw_stmt.")
    lines.append("Proof. exact (split_list_rmw atomic_sites _ decide_atomic). Qed.")
    lines.append("")
    lines.append("(* documented process-wide configuration (written by the documented setters / seeding functions) must be ONE object per process: the")
    lines.append("   variables of the library with thread storage duration (VarDecl tls kind of the clang AST), and those among them that are such statics *)")
    lines.append("Definition process_wide_statics : list string := %s." % om.coq_list([om.coq_str(x) for x in process_wide_statics()]))
    lines.append("Definition thread_local_variables : list string := %s." % om.coq_list([om.coq_str(t[0]) for t in res["meta"].get("thread_local_variables", [])]))
    lines.append("Definition Decide_tls_stmt : Prop := filter (fun v => existsb (String.eqb v) process_wide_statics) thread_local_variables = %s." %
                 om.coq_list([om.coq_str(t[0]) for t in res["meta"].get("thread_local_variables", []) if t[0] in set(process_wide_statics())]))
    lines.append("Lemma decide_tls : Decide_tls_stmt.")
    lines.append("Proof. vm_compute. reflexivity. Qed.")
    lines.append("")
    lines.append("(* Example for C18_domain_program: the generated class descriptions contain claimed methods accepted by method_rf_b *)")
    lines.append("Definition DomainExample_stmt : Prop := existsb (fun d => existsb (fun m => claimed_b m && method_rf_b m) (cd_methods d)) all_descs = true.")
    lines.append("Lemma domain_example : DomainExample_stmt.")
    lines.append("Proof. vm_compute. reflexivity. Qed.")
    return "\n".join(lines) + "\n"


if __name__ == "__main__":
    res, err, inc = build()
    if err:
        print(err); sys.exit(1)
    print(json.dumps(res["meta"], indent=1)[:3000])
    off, doc = decide(res)
    print("ops:", len(res["ops"]))
    print("offenders:")
    for o in off:
        print("  ", o["uid"], o["effects"], o["via"])
    print("documented writers:")
    for o, c, w in doc:
        print("  [%s] %s %s" % (c, o["uid"], writes_of(o) + random_of(o)))
    rd = {}
    for o in res["ops"]:
        for t in o["effects"]:
            if t[0] in ("RGlobal", "RExcluded", "WStaticInit"):
                rd.setdefault("%s %s" % tuple(t), []).append(o["uid"])
    for k, v in sorted(rd.items()):
        print("  %-28s %4d ops e.g. %s" % (k, len(v), v[0][:90]))
    print("atomic sites:")
    for o in atomic_sites(res):
        print("  ", o["uid"], o["atomic"])
    print("atomic offenders:", [o["uid"] for o in atomic_offenders(res)])
    if len(sys.argv) > 1:
        open(sys.argv[1], "w").write(emit_coq(res))
