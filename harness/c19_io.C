// C19 harness: text output / input of /repo's current sources on cases read from stdin.
// Text travels as hex bytes ("-" = empty).  One result line per case; see checks/C19.py.
//   reads print:  <value> <remaining characters, hex> <eofbit><failbit>
#include <iostream>
#include <sstream>
#include <iomanip>
#include <string>
#include <vector>
#include <map>
#include <memory>
#include <iterator>
#include <cstdlib>
#include <csignal>
#include <unistd.h>
#include <sys/time.h>
#include <sys/resource.h>
#include "givinteger.h"
#include "givrational.h"
#include "qfield.h"
#include "zring.h"
// C19_NOCXX: the Integer / Rational part only, for the build of gmp++_int_io.C without the GMP C++ streams
// (-D__GIVARO_GMP_NO_CXX; RecInt and the rings need mpz_class and are left out)
#ifndef C19_NOCXX
#include "modular.h"
#include "modular-balanced.h"
#include "modular-extended.h"
#include "montgomery.h"
#include "gfq.h"
#include "gf2.h"
#include "givpoly1.h"
#include "extension.h"
#include <recint/recint.h>
#endif

using namespace Givaro;
typedef std::vector<std::string> Args;

static std::string unhex(const std::string& h) {
    if (h == "-") return "";
    std::string r;
    for (size_t i = 0; i + 1 < h.size(); i += 2) r.push_back((char) strtol(h.substr(i, 2).c_str(), 0, 16));
    return r;
}
static std::string hex(const std::string& s) {
    if (s.empty()) return "-";
    static const char* d = "0123456789abcdef";
    std::string r;
    for (size_t i = 0; i < s.size(); ++i) { unsigned char c = (unsigned char) s[i]; r.push_back(d[c >> 4]); r.push_back(d[c & 15]); }
    return r;
}
// stream state and the characters not consumed
static std::string after(std::istream& is) {
    bool e = is.eof(), f = is.fail();
    is.clear();
    std::string rest((std::istreambuf_iterator<char>(is.rdbuf())), std::istreambuf_iterator<char>());
    return hex(rest) + " " + (e ? "1" : "0") + (f ? "1" : "0");
}
// state bits and the next character (not extracted, stream state untouched) after one read of a sequence
static std::string stnx(std::istream& is) {
    bool e = is.eof(), f = is.fail();
    int c = is.rdbuf()->sgetc();
    std::string r = std::string(e ? "1" : "0") + (f ? "1" : "0") + ":";
    if (c == std::char_traits<char>::eof()) return r + "--";
    return r + hex(std::string(1, (char) c));
}
static std::string restof(std::istream& is) {
    is.clear();
    std::string rest((std::istreambuf_iterator<char>(is.rdbuf())), std::istreambuf_iterator<char>());
    return hex(rest);
}
static std::string show(const Integer& z) { char* s = mpz_get_str(0, 10, z.get_mpz_const()); std::string r(s); free(s); return r; }
static Integer parseZ(const std::string& s) { Integer z; mpz_set_str(z.get_mpz(), s.c_str(), 10); return z; }
static std::vector<std::string> split(const std::string& s, char sep) {
    std::vector<std::string> v; if (s == "-") return v;
    std::string cur; for (size_t i = 0; i < s.size(); ++i) { if (s[i] == sep) { v.push_back(cur); cur.clear(); } else cur.push_back(s[i]); }
    v.push_back(cur); return v;
}

// ---------------------------------------------------------------- Integer
static std::string int_ops(const std::string& op, const Args& a) {
    if (op == "int.read.op" || op == "int.read.zring") {
        Integer x = parseZ(a[0]); std::istringstream is(unhex(a[1]));
        if (op == "int.read.op") is >> x; else { ZRing<Integer> Z; Z.read(is, x); }
        return show(x) + " " + after(is);
    }
    if (op == "int.write.op") { std::ostringstream o; o << parseZ(a[0]); return hex(o.str()); }
    if (op == "int.write.print") { std::ostringstream o; parseZ(a[0]).print(o); return hex(o.str()); }
    if (op == "int.write.string") { std::string s = (std::string) parseZ(a[0]); return hex(s); }
    if (op == "int.write.zring") { std::ostringstream o; ZRing<Integer> Z; Z.write(o, parseZ(a[0])); return hex(o.str()); }
    if (op == "int.write.abs") { std::ostringstream o; absOutput(o, parseZ(a[0])); return hex(o.str()); }
    if (op == "int.rt.op" || op == "int.rt.zring" || op == "int.rt.print") {      // z old tail
        std::ostringstream o; ZRing<Integer> Z; Integer z = parseZ(a[0]), x = parseZ(a[1]);
        if (op == "int.rt.op") o << z; else if (op == "int.rt.print") z.print(o); else Z.write(o, z);
        std::istringstream is(o.str() + unhex(a[2]));
        if (op == "int.rt.zring") Z.read(is, x); else is >> x;
        return hex(o.str()) + " " + show(x) + " " + after(is);
    }
    if (op == "int.rtb") {      // base z old tail: Integer through streams in hex / oct mode (GMP honours basefield on both sides)
        int base = atoi(a[0].c_str()); Integer z = parseZ(a[1]), x = parseZ(a[2]); std::ostringstream o;
        if (base == 16) o << std::hex; else if (base == 8) o << std::oct;
        o << z;
        std::istringstream is(o.str() + unhex(a[3]));
        if (base == 16) is >> std::hex; else if (base == 8) is >> std::oct;
        is >> x;
        return hex(o.str()) + " " + show(x) + " " + after(is);
    }
    if (op == "int.strrt") { Integer z = parseZ(a[0]); std::string t = (std::string) z; Integer x(t.c_str()); return hex(t) + " " + show(x); }
    if (op == "int.cstr") { std::string s = unhex(a[0]); Integer x(s.c_str()); return show(x); }
    if (op == "int.seq") {
        int n = atoi(a[0].c_str()); std::istringstream is(unhex(a[1])); std::string r;
        for (int i = 0; i < n; ++i) { Integer x(0); is >> x; r += (i ? "," : "") + show(x); }
        if (n == 0) r = "-";
        return r + " " + after(is);
    }
    if (op == "int.seqd.op" || op == "int.seqd.zring") {      // old n text: n reads into ONE variable that holds `old`
        Integer x = parseZ(a[0]); int n = atoi(a[1].c_str()); std::istringstream is(unhex(a[2])); ZRing<Integer> Z; std::string r;
        for (int i = 0; i < n; ++i) { if (op == "int.seqd.op") is >> x; else Z.read(is, x); r += show(x) + ":" + stnx(is) + " "; }
        return r + restof(is);
    }
    if (op == "int.flags") {    // base width fill(hex) showpos showbase upper adjust(r|l|i) z old : operator<< under stream flags, read back in that base
        int base = atoi(a[0].c_str()), width = atoi(a[1].c_str()); std::string fill = unhex(a[2]); Integer z = parseZ(a[7]), x = parseZ(a[8]);
        std::ostringstream o;
        if (base == 16) o << std::hex; else if (base == 8) o << std::oct;
        if (a[3] == "1") o << std::showpos; if (a[4] == "1") o << std::showbase; if (a[5] == "1") o << std::uppercase;
        if (a[6] == "l") o << std::left; else if (a[6] == "i") o << std::internal;
        if (!fill.empty()) o << std::setfill(fill[0]);
        o << std::setw(width) << z << "|" << z;          // the width applies to one value only
        std::string t = o.str(), first = t.substr(0, t.find('|'));
        std::istringstream is(first); if (base == 16) is >> std::hex; else if (base == 8) is >> std::oct;
        is >> x;
        return hex(t) + " " + show(x) + " " + after(is);
    }
    if (op == "int.wseqb") {    // base old sep v1,v2,.. n : several Integers on one ostream in hex / oct mode, read back in that mode
        int base = atoi(a[0].c_str()); Integer x = parseZ(a[1]); std::string sep = unhex(a[2]); std::vector<std::string> vs = split(a[3], ','); int n = atoi(a[4].c_str());
        std::ostringstream o; if (base == 16) o << std::hex; else if (base == 8) o << std::oct;
        for (size_t i = 0; i < vs.size(); ++i) { if (i) o << sep; if (i % 2) parseZ(vs[i]).print(o); else o << parseZ(vs[i]); }
        std::istringstream is(o.str()); if (base == 16) is >> std::hex; else if (base == 8) is >> std::oct;
        std::string r = hex(o.str()) + " ";
        for (int i = 0; i < n; ++i) { is >> x; r += show(x) + ":" + stnx(is) + " "; }
        return r + restof(is);
    }
    if (op == "int.wseq.op" || op == "int.wseq.print" || op == "int.wseq.zring") {
        // old sep v1,v2,.. n : all values written to ONE ostream with the separator, then n reads from one istream into one variable
        Integer x = parseZ(a[0]); std::string sep = unhex(a[1]); std::vector<std::string> vs = split(a[2], ','); int n = atoi(a[3].c_str());
        std::ostringstream o; ZRing<Integer> Z;
        for (size_t i = 0; i < vs.size(); ++i) {
            Integer z = parseZ(vs[i]); if (i) o << sep;
            if (op == "int.wseq.op") o << z; else if (op == "int.wseq.print") z.print(o); else Z.write(o, z);
        }
        std::istringstream is(o.str()); std::string r = hex(o.str()) + " ";
        for (int i = 0; i < n; ++i) { if (op == "int.wseq.zring") Z.read(is, x); else is >> x; r += show(x) + ":" + stnx(is) + " "; }
        return r + restof(is);
    }
    return "UNKNOWN-OP";
}

// ---------------------------------------------------------------- Rational
static std::string showq(const Rational& q) { return show(q.nume()) + "/" + show(q.deno()); }
static std::string rat_ops(const std::string& op, const Args& a) {
    if (op == "rat.read.op" || op == "rat.read.qfield") {
        std::istringstream is(unhex(a[0])); Rational r(7, 3); std::string v;
        try { if (op == "rat.read.op") is >> r; else { QField<Rational> Q; Q.read(is, r); } v = showq(r); } catch (...) { v = "EXC"; }
        return v + " " + after(is);
    }
    if (op == "rat.cstr") {
        std::string s = unhex(a[0]);
        try { Rational r(s.c_str()); return showq(r); } catch (...) { return "EXC"; }
    }
    if (op == "rat.norm") {
        try { Rational r(parseZ(a[0]), parseZ(a[1])); return showq(r); } catch (...) { return "EXC"; }
    }
    if (op == "rat.write.op" || op == "rat.write.print" || op == "rat.write.qfield") {
        Rational r(parseZ(a[0]), parseZ(a[1]), 0);          // stored as given (no reduction)
        std::ostringstream o;
        if (op == "rat.write.op") o << r; else if (op == "rat.write.print") r.print(o); else { QField<Rational> Q; Q.write(o, r); }
        return hex(o.str());
    }
    if (op == "rat.rt.op" || op == "rat.rt.qfield" || op == "rat.rt.print") {     // n d tail   (n/d canonical)
        Rational r(parseZ(a[0]), parseZ(a[1]), 0), x(7, 3); QField<Rational> Q; std::ostringstream o; std::string v;
        if (op == "rat.rt.op") o << r; else if (op == "rat.rt.print") r.print(o); else Q.write(o, r);
        std::istringstream is(o.str() + unhex(a[2]));
        try { if (op == "rat.rt.qfield") Q.read(is, x); else is >> x; v = showq(x); } catch (...) { v = "EXC"; }
        return hex(o.str()) + " " + v + " " + after(is);
    }
    if (op == "rat.strrt") {
        Rational r(parseZ(a[0]), parseZ(a[1]), 0); std::ostringstream o; o << r;
        try { Rational x(o.str().c_str()); return hex(o.str()) + " " + showq(x); } catch (...) { return hex(o.str()) + " EXC"; }
    }
    if (op == "rat.seq") {
        int n = atoi(a[0].c_str()); std::istringstream is(unhex(a[1])); std::string r;
        for (int i = 0; i < n; ++i) {
            std::string v; Rational q(7, 3);
            try { is >> q; v = showq(q); } catch (...) { v = "EXC"; }
            r += (i ? "," : "") + v;
        }
        if (n == 0) r = "-";
        return r + " " + after(is);
    }
    if (op == "rat.seqd.op" || op == "rat.seqd.qfield") {     // oldn oldd n text: n reads into ONE variable
        Rational q(parseZ(a[0]), parseZ(a[1]), 0); int n = atoi(a[2].c_str()); std::istringstream is(unhex(a[3])); QField<Rational> Q; std::string r;
        for (int i = 0; i < n; ++i) {
            std::string v;
            try { if (op == "rat.seqd.op") is >> q; else Q.read(is, q); v = showq(q); } catch (...) { v = "EXC=" + showq(q); }
            r += v + ":" + stnx(is) + " ";
        }
        return r + restof(is);
    }
    if (op == "rat.wseq.op" || op == "rat.wseq.print" || op == "rat.wseq.qfield") {      // oldn oldd sep n1/d1,n2/d2,.. n
        Rational q(parseZ(a[0]), parseZ(a[1]), 0); std::string sep = unhex(a[2]); std::vector<std::string> vs = split(a[3], ','); int n = atoi(a[4].c_str());
        std::ostringstream o; QField<Rational> Q;
        for (size_t i = 0; i < vs.size(); ++i) {
            std::vector<std::string> nd = split(vs[i], '/'); Rational r(parseZ(nd[0]), parseZ(nd[1]), 0); if (i) o << sep;
            if (op == "rat.wseq.op") o << r; else if (op == "rat.wseq.print") r.print(o); else Q.write(o, r);
        }
        std::istringstream is(o.str()); std::string r = hex(o.str()) + " ";
        for (int i = 0; i < n; ++i) {
            std::string v;
            try { if (op == "rat.wseq.qfield") Q.read(is, q); else is >> q; v = showq(q); } catch (...) { v = "EXC=" + showq(q); }
            r += v + ":" + stnx(is) + " ";
        }
        return r + restof(is);
    }
    return "UNKNOWN-OP";
}

#ifndef C19_NOCXX
// ---------------------------------------------------------------- residue types from text
template <class T, class En = void> struct RP { static T parse(const std::string& s) { return (T) parseZ(s); } };
template <size_t K> struct RP<RecInt::ruint<K> > { static RecInt::ruint<K> parse(const std::string& s) { Integer z = parseZ(s); RecInt::ruint<K> r(z); return r; } };

// ---------------------------------------------------------------- ring / field elements
template <class Ring> struct RingIO {
    typedef typename Ring::Element E;
    static std::string norm(const Ring& F, const E& e, const Integer& p) { Integer v; F.convert(v, e); v %= p; if (v < 0) v += p; return show(v); }
    static std::string go(const std::string& op, const Args& a) {
        if (op == "ring.maxc") { Integer m; Caster(m, Ring::maxCardinality()); return show(m); }
        static std::unique_ptr<Ring> cur; static std::string curp;
        if (!cur || curp != a[0]) { cur.reset(new Ring(RP<typename Ring::Residu_t>::parse(a[0]))); curp = a[0]; }
        const Ring& F = *cur; Integer p = parseZ(a[0]);
        if (op == "ring.write") { E e; F.init(e, parseZ(a[1])); std::ostringstream o; F.write(o, e); return hex(o.str()); }
        if (op == "ring.read") { E e; F.init(e, Integer(1)); std::istringstream is(unhex(a[1])); F.read(is, e); return norm(F, e, p) + " " + after(is); }
        if (op == "ring.rt") {      // write, then read text + rest back
            E e, e2; F.init(e, parseZ(a[1])); F.init(e2, Integer(1)); std::ostringstream o; F.write(o, e);
            std::istringstream is(o.str() + unhex(a[2])); F.read(is, e2);
            return hex(o.str()) + " " + (F.areEqual(e, e2) ? "1" : "0") + " " + norm(F, e2, p) + " " + after(is);
        }
        if (op == "ring.seqd") {    // old n text: n reads into ONE element that holds `old`
            E e; F.init(e, parseZ(a[1])); int n = atoi(a[2].c_str()); std::istringstream is(unhex(a[3])); std::string r;
            for (int i = 0; i < n; ++i) { F.read(is, e); r += norm(F, e, p) + ":" + stnx(is) + " "; }
            return r + restof(is);
        }
        if (op == "ring.wseq") {    // old sep v1,v2,.. n
            E e; F.init(e, parseZ(a[1])); std::string sep = unhex(a[2]); std::vector<std::string> vs = split(a[3], ','); int n = atoi(a[4].c_str());
            std::ostringstream o;
            for (size_t i = 0; i < vs.size(); ++i) { E w; F.init(w, parseZ(vs[i])); if (i) o << sep; F.write(o, w); }
            std::istringstream is(o.str()); std::string r = hex(o.str()) + " ";
            for (int i = 0; i < n; ++i) { F.read(is, e); r += norm(F, e, p) + ":" + stnx(is) + " "; }
            return r + restof(is);
        }
        return "UNKNOWN-OP";
    }
};

// ---------------------------------------------------------------- polynomials
template <class Ring> struct PolyIO {
    typedef Poly1Dom<Ring, Dense> PD; typedef typename PD::Element P; typedef typename Ring::Element E;
    static std::string showp(const Ring& F, const P& A, const Integer& p) {
        if (A.size() == 0) return "-";
        std::string r; for (size_t i = 0; i < A.size(); ++i) r += (i ? "," : "") + RingIO<Ring>::norm(F, A[i], p);
        return r;
    }
    static std::string go(const std::string& op, const Args& a) {
        Ring F(RP<typename Ring::Residu_t>::parse(a[0])); Integer p = parseZ(a[0]);
        if (op == "poly.write" || op == "poly.rt") {
            PD D(F, Indeter(unhex(a[1]))); std::vector<std::string> cs = split(a[2], ',');
            P A(cs.size()); for (size_t i = 0; i < cs.size(); ++i) F.init(A[i], parseZ(cs[i]));
            std::ostringstream o; D.write(o, A);
            if (op == "poly.write") return hex(o.str());
            P B; std::istringstream is(o.str()); std::string eq;
            long deg = -1; { std::istringstream t(o.str()); t >> deg; }      // what the reader will take as the degree
            if (deg < 0 || deg > 100000) return hex(o.str()) + " 0 NOT-READ - 00";
            D.read(is, B);
            D.setdegree(A);
            return hex(o.str()) + " " + (D.areEqual(A, B) ? "1" : "0") + " " + showp(F, B, p) + " " + after(is);
        }
        if (op == "poly.wr") {          // var cs old: write, then read the text into a variable that holds `old`
            PD D(F, Indeter(unhex(a[1]))); std::vector<std::string> cs = split(a[2], ','), os = split(a[3], ',');
            P A(cs.size()); for (size_t i = 0; i < cs.size(); ++i) F.init(A[i], parseZ(cs[i]));
            P B(os.size()); for (size_t i = 0; i < os.size(); ++i) F.init(B[i], parseZ(os[i]));
            std::ostringstream o; D.write(o, A);
            long deg = -1; { std::istringstream t(o.str()); t >> deg; }      // what the reader will take as the degree
            if (deg < 0 || deg > 100000) return hex(o.str()) + " NOT-READ - 00";
            std::istringstream is(o.str()); D.read(is, B);
            return hex(o.str()) + " " + showp(F, B, p) + " " + after(is);
        }
        if (op == "poly.seqd") {        // old n text: n reads ("deg c_deg .. c_0") into ONE variable that holds `old`
            PD D(F, Indeter("X")); std::vector<std::string> os = split(a[1], ',');
            P B(os.size()); for (size_t i = 0; i < os.size(); ++i) F.init(B[i], parseZ(os[i]));
            int n = atoi(a[2].c_str()); std::istringstream is(unhex(a[3])); std::string r;
            for (int i = 0; i < n; ++i) {
                D.read(is, B); r += showp(F, B, p) + ":" + stnx(is) + " ";
            }
            return r + restof(is);
        }
        if (op == "poly.wseq") {        // var sep c,c,c;c,c;.. : all polynomials written to ONE ostream with the separator
            PD D(F, Indeter(unhex(a[1]))); std::string sep = unhex(a[2]); std::vector<std::string> ps = split(a[3], ';');
            std::ostringstream o;
            for (size_t k = 0; k < ps.size(); ++k) {
                std::vector<std::string> cs = split(ps[k], ',');
                P A(cs.size()); for (size_t i = 0; i < cs.size(); ++i) F.init(A[i], parseZ(cs[i]));
                if (k) o << sep;
                D.write(o, A);
            }
            return hex(o.str());
        }
        if (op == "poly.read") {
            PD D(F, Indeter("X")); P B; std::istringstream is(unhex(a[1])); D.read(is, B);
            return showp(F, B, p) + " " + after(is);
        }
        return "UNKNOWN-OP";
    }
};

// ---------------------------------------------------------------- GFq
template <class T> struct GfqIO {
    static std::string go(const std::string& op, const Args& a) {
        typedef GFqDom<T> Fld; static std::unique_ptr<Fld> cur; static std::string key;
        std::string k = a[0] + "^" + a[1];
        if (!cur || key != k) { cur.reset(new Fld((typename Fld::Residu_t) atoll(a[0].c_str()), (typename Fld::Residu_t) atoll(a[1].c_str()))); key = k; }
        const Fld& F = *cur;
        if (op == "gfq.rt") {           // element by its internal representation (Zech logarithm index)
            typename Fld::Element e = (typename Fld::Element) atoll(a[2].c_str()), e2 = 0;
            std::ostringstream o; F.write(o, e);
            std::istringstream is(o.str() + unhex(a[3])); F.read(is, e2);
            int64_t v2; F.convert(v2, e2);
            return hex(o.str()) + " " + (F.areEqual(e, e2) ? "1" : "0") + " " + std::to_string((long long) v2) + " " + after(is);
        }
        if (op == "gfq.read") {         // value as the integer convert() gives
            typename Fld::Element e = 0; std::istringstream is(unhex(a[2])); F.read(is, e);
            int64_t v; F.convert(v, e);
            return std::to_string((long long) v) + " " + after(is);
        }
        if (op == "gfq.seqd") {         // old n text
            typename Fld::Element e = (typename Fld::Element) atoll(a[2].c_str()); int n = atoi(a[3].c_str());
            std::istringstream is(unhex(a[4])); std::string r;
            for (int i = 0; i < n; ++i) { F.read(is, e); int64_t v; F.convert(v, e); r += std::to_string((long long) v) + ":" + stnx(is) + " "; }
            return r + restof(is);
        }
        return "UNKNOWN-OP";
    }
};

// ---------------------------------------------------------------- Extension<Modular<int32_t>>: read = Poly1Dom::read ; modin
static std::string ext_ops(const std::string& op, const Args& a) {
    typedef Modular<int32_t> F; typedef Extension<F> Ext; typedef Ext::Pol_t PD; typedef Ext::PolElement P;
    F f((int32_t) atol(a[0].c_str())); Integer p = parseZ(a[0]); PD D(f, Indeter("X"));
    std::vector<std::string> ir = split(a[1], ','), os = split(a[2], ',');
    P irr(ir.size()); for (size_t i = 0; i < ir.size(); ++i) f.init(irr[i], parseZ(ir[i]));
    Ext E(D, irr);
    if (op == "ext.write") {            // p irred cs : Extension::write(o, element) (= the polynomial writer of its polynomial domain)
        P A(os.size()); for (size_t i = 0; i < os.size(); ++i) f.init(A[i], parseZ(os[i]));
        std::ostringstream o; E.write(o, A); return hex(o.str());
    }
    if (op == "ext.seqd") {             // p irred old n text
        P B(os.size()); for (size_t i = 0; i < os.size(); ++i) f.init(B[i], parseZ(os[i]));
        int n = atoi(a[3].c_str()); std::istringstream is(unhex(a[4])); std::string r;
        for (int i = 0; i < n; ++i) {
            E.read(is, B); r += PolyIO<F>::showp(f, B, p) + ":" + stnx(is) + " ";
        }
        return r + restof(is);
    }
    return "UNKNOWN-OP";
}

// ---------------------------------------------------------------- RecInt
// rint<K> from a signed integer (rint's template constructor takes the ruint path, which is for values >= 0)
template <size_t K> static RecInt::rint<K> mkrint(const Integer& z) { RecInt::rint<K> r; RecInt::mpz_t_to_rint(r, z.get_mpz_const()); return r; }
// ruint<K>(const char*): the ruint<6> specialisation declares this constructor (ruruint.h) but nothing defines it (link error)
template <size_t K> struct RuCstr { static RecInt::ruint<K> mk(const char* s) { return RecInt::ruint<K>(s); } };
#ifndef C19_RUINT6_CSTR
template <> struct RuCstr<6> { static RecInt::ruint<6> mk(const char* s) { RecInt::ruint<6> r; RecInt::mpz_to_ruint(r, mpz_class(s)); return r; } };
#endif
template <size_t K> struct RecIO {
    static std::string go(const std::string& op, const Args& a) {
        bool hx = (a[1] == "1");
        if (op == "ru.write") { RecInt::ruint<K> x(parseZ(a[2])); std::ostringstream o; if (hx) o << std::hex; o << x; return hex(o.str()); }
        if (op == "ru.read") {
            RecInt::ruint<K> x(5); std::istringstream is(unhex(a[2])); if (hx) is >> std::hex; is >> x;
            Integer z(x); return show(z) + " " + after(is);
        }
        if (op == "ru.rt") {
            RecInt::ruint<K> x(parseZ(a[2])), y(5); std::ostringstream o; if (hx) o << std::hex; o << x;
            std::istringstream is(o.str() + unhex(a[3])); if (hx) is >> std::hex; is >> y;
            Integer z(y); return hex(o.str()) + " " + show(z) + " " + after(is);
        }
        if (op == "ri.rt") {
            RecInt::rint<K> x(mkrint<K>(parseZ(a[2]))), y(5); std::ostringstream o; if (hx) o << std::hex; o << x;
            std::istringstream is(o.str() + unhex(a[3])); if (hx) is >> std::hex; is >> y;
            Integer z(y); return hex(o.str()) + " " + show(z) + " " + after(is);
        }
        if (op == "ru.seqd") {          // hex old n text: n reads into ONE variable
            RecInt::ruint<K> x(parseZ(a[2])); int n = atoi(a[3].c_str()); std::istringstream is(unhex(a[4])); if (hx) is >> std::hex; std::string r;
            for (int i = 0; i < n; ++i) { is >> x; Integer z(x); r += show(z) + ":" + stnx(is) + " "; }
            return r + restof(is);
        }
        if (op == "ri.seqd") {
            RecInt::rint<K> x(mkrint<K>(parseZ(a[2]))); int n = atoi(a[3].c_str()); std::istringstream is(unhex(a[4])); if (hx) is >> std::hex; std::string r;
            for (int i = 0; i < n; ++i) { is >> x; Integer z(x); r += show(z) + ":" + stnx(is) + " "; }
            return r + restof(is);
        }
        if (op == "ru.wseq" || op == "ri.wseq") {      // hex old sep v1,v2,.. n
            std::string sep = unhex(a[3]); std::vector<std::string> vs = split(a[4], ','); int n = atoi(a[5].c_str());
            std::ostringstream o; if (hx) o << std::hex;
            for (size_t i = 0; i < vs.size(); ++i) {
                if (i) o << sep;
                if (op == "ru.wseq") { RecInt::ruint<K> w(parseZ(vs[i])); o << w; } else { RecInt::rint<K> w(mkrint<K>(parseZ(vs[i]))); o << w; }
            }
            std::istringstream is(o.str()); if (hx) is >> std::hex; std::string r = hex(o.str()) + " ";
            if (op == "ru.wseq") { RecInt::ruint<K> x(parseZ(a[2])); for (int i = 0; i < n; ++i) { is >> x; Integer z(x); r += show(z) + ":" + stnx(is) + " "; } }
            else { RecInt::rint<K> x(mkrint<K>(parseZ(a[2]))); for (int i = 0; i < n; ++i) { is >> x; Integer z(x); r += show(z) + ":" + stnx(is) + " "; } }
            return r + restof(is);
        }
        if (op == "ru.cstr") {          // ruint<K>(const char*) of the decimal text operator<< prints
            RecInt::ruint<K> x(parseZ(a[2])); std::ostringstream o; o << x; RecInt::ruint<K> y(RuCstr<K>::mk(o.str().c_str())); Integer z(y);
            return hex(o.str()) + " " + show(z);
        }
        if (op == "ri.write") { RecInt::rint<K> x(mkrint<K>(parseZ(a[2]))); std::ostringstream o; if (hx) o << std::hex; o << x; return hex(o.str()); }
        if (op == "ri.read") {
            RecInt::rint<K> x(5); std::istringstream is(unhex(a[2])); if (hx) is >> std::hex; is >> x;
            Integer z(x); return show(z) + " " + after(is);
        }
        return "UNKNOWN-OP";
    }
};

// rmint<K, MG>: operator<< prints the residue (de-montgomerised), operator>> reads a ruint and brings it into the representation
template <size_t K, size_t MG> static std::string rm_seqd(const Args& a) {     // p old sep v1,v2,.. n : written to one ostream, n reads into one variable
    typedef RecInt::rmint<K, MG> M;
    M::init_module(RecInt::ruint<K>(parseZ(a[0])));
    M x(RecInt::ruint<K>(parseZ(a[1]))); std::string sep = unhex(a[2]); std::vector<std::string> vs = split(a[3], ','); int n = atoi(a[4].c_str());
    std::ostringstream o;
    for (size_t i = 0; i < vs.size(); ++i) { M w(RecInt::ruint<K>(parseZ(vs[i]))); if (i) o << sep; o << w; }
    std::istringstream is(o.str()); std::string r = hex(o.str()) + " ";
    for (int i = 0; i < n; ++i) { is >> x; std::ostringstream v; v << x; r += v.str() + ":" + stnx(is) + " "; }
    return r + restof(is);
}

// plain num_get (what ModularBalanced<intN>, ModularExtended, GFqDom and the polynomial reader rely on)
template <class T> static std::string numget(const Args& a) {
    T v = (T) atoll(a[0].c_str()); std::istringstream is(unhex(a[1])); is >> v;
    return std::to_string((long long) v) + " " + after(is);
}

// values of different types written one after the other to ONE ostream (default flags) and read back from ONE istream:
// Integer, Rational, Modular<int32_t> element, ruint<7>, rint<7>, ModularBalanced<int64_t> element, GF2 element, polynomial text,
// Integer, ruint<8>, Rational.   args: sep z n d p e u s b g c0,c1,.. z2 u8 n2 d2
static std::string mix_rt(const Args& a) {
    std::string sep = unhex(a[0]);
    Integer z = parseZ(a[1]), z2 = parseZ(a[11]); Rational q(parseZ(a[2]), parseZ(a[3]), 0), q2(parseZ(a[13]), parseZ(a[14]), 0);
    Modular<int32_t> F((int32_t) atol(a[4].c_str())); Modular<int32_t>::Element e; F.init(e, parseZ(a[5]));
    RecInt::ruint<7> u(parseZ(a[6])); RecInt::rint<7> s7(mkrint<7>(parseZ(a[7]))); RecInt::ruint<8> u8(parseZ(a[12]));
    ModularBalanced<int64_t> B((int64_t) atol(a[4].c_str())); ModularBalanced<int64_t>::Element b; B.init(b, parseZ(a[8]));
    GF2 G; GF2::Element g; G.init(g, atoi(a[9].c_str()));
    Poly1Dom<Modular<int32_t>, Dense> D(F, Indeter("X")); std::vector<std::string> cs = split(a[10], ',');
    Poly1Dom<Modular<int32_t>, Dense>::Element P(cs.size()); for (size_t i = 0; i < cs.size(); ++i) F.init(P[i], parseZ(cs[i]));
    std::ostringstream o;
    o << z << sep << q << sep; F.write(o, e) << sep << u << sep << s7 << sep; B.write(o, b) << sep; G.write(o, g) << sep;
    D.write(o, P) << sep << z2 << sep << u8 << sep << q2;
    // read back everything but the polynomial (its text is skipped as characters)
    std::ostringstream op; D.write(op, P);
    std::istringstream is(o.str());
    Integer rz(-99), rz2(-99); Rational rq(7, 3), rq2(7, 3); Modular<int32_t>::Element re; F.init(re, Integer(1));
    RecInt::ruint<7> ru(5); RecInt::rint<7> rs(5); RecInt::ruint<8> ru8(5); ModularBalanced<int64_t>::Element rb; B.init(rb, Integer(1)); GF2::Element rg = false;
    std::string r = hex(o.str()) + " ";
    is >> rz; r += show(rz) + ":" + stnx(is) + " ";
    is >> rq; r += showq(rq) + ":" + stnx(is) + " ";
    F.read(is, re); { Integer v; F.convert(v, re); r += show(v) + ":" + stnx(is) + " "; }
    is >> ru; { Integer v(ru); r += show(v) + ":" + stnx(is) + " "; }
    is >> rs; { Integer v(rs); r += show(v) + ":" + stnx(is) + " "; }
    B.read(is, rb); { Integer v; B.convert(v, rb); r += show(v) + ":" + stnx(is) + " "; }
    G.read(is, rg); r += std::string(rg ? "1" : "0") + ":" + stnx(is) + " ";
    is >> std::ws; for (size_t i = 0; i < op.str().size(); ++i) is.get();
    is >> rz2; r += show(rz2) + ":" + stnx(is) + " ";
    is >> ru8; { Integer v(ru8); r += show(v) + ":" + stnx(is) + " "; }
    is >> rq2; r += showq(rq2) + ":" + stnx(is) + " ";
    return r + restof(is);
}

typedef std::string (*Fn)(const std::string&, const Args&);
static std::map<std::string, Fn> rings, polys;
#endif
#ifdef C19_NOCXX
typedef std::string (*Fn)(const std::string&, const Args&);
#endif
#define REG(name, ...) rings[name] = &RingIO<__VA_ARGS__ >::go
#define REGP(name, ...) polys[name] = &PolyIO<__VA_ARGS__ >::go

// per-case CPU-time watchdog (ITIMER_PROF counts CPU time of this process: independent of the machine load) and crash
// reporting: every result line is flushed, so the marker line stands for the case that was running; the check re-runs
// that case alone with a larger budget and continues with the cases after it.
static void on_prof(int) { const char m[] = "CPU-TIMEOUT\n"; if (write(1, m, sizeof(m) - 1)) {} _exit(3); }
static void on_crash(int sig) {
    char m[] = "CRASHED 00\n"; m[8] = char('0' + (sig / 10) % 10); m[9] = char('0' + sig % 10);
    if (write(1, m, sizeof(m) - 1)) {} _exit(4);
}
static void arm(long seconds) {
    struct itimerval it; it.it_interval.tv_sec = 0; it.it_interval.tv_usec = 0; it.it_value.tv_sec = seconds; it.it_value.tv_usec = 0;
    setitimer(ITIMER_PROF, &it, 0);
}

int main(int argc, char** argv) {
    long budget = argc > 1 ? atol(argv[1]) : 30;
    { struct rlimit rl; rl.rlim_cur = rl.rlim_max = (rlim_t) 6 << 30; setrlimit(RLIMIT_AS, &rl); }   // a garbage size must fail as bad_alloc, not eat the machine
    signal(SIGPROF, on_prof); signal(SIGSEGV, on_crash); signal(SIGBUS, on_crash); signal(SIGFPE, on_crash); signal(SIGABRT, on_crash); signal(SIGILL, on_crash);
#ifndef C19_NOCXX
    REG("i8_i8", Modular<int8_t, int8_t>);     REG("i8_i16", Modular<int8_t, int16_t>);
    REG("u8_u8", Modular<uint8_t, uint8_t>);   REG("u8_u16", Modular<uint8_t, uint16_t>);
    REG("i16_i32", Modular<int16_t, int32_t>); REG("u16_u32", Modular<uint16_t, uint32_t>);
    REG("i32_i32", Modular<int32_t, int32_t>); REG("i32_i64", Modular<int32_t, int64_t>);
    REG("u32_u64", Modular<uint32_t, uint64_t>);
    REG("i64_i64", Modular<int64_t, int64_t>); REG("i64_u64", Modular<int64_t, uint64_t>);
    REG("u64_u64", Modular<uint64_t, uint64_t>);
    REG("i16_i16", Modular<int16_t, int16_t>); REG("u16_u16", Modular<uint16_t, uint16_t>); REG("u32_u32", Modular<uint32_t, uint32_t>);
    REG("i64_u128", Modular<int64_t, uint128_t>); REG("u64_u128", Modular<uint64_t, uint128_t>);
    REG("f_f", Modular<float, float>); REG("f_d", Modular<float, double>); REG("d_d", Modular<double, double>);
    REG("bi32", ModularBalanced<int32_t>); REG("bi64", ModularBalanced<int64_t>);
    REG("bf", ModularBalanced<float>); REG("bd", ModularBalanced<double>);
    REG("ef", ModularExtended<float>); REG("ed", ModularExtended<double>);
    REG("zz", Modular<Integer>);
    REG("ru6_6", Modular<RecInt::ruint<6>, RecInt::ruint<6> >); REG("ru7_7", Modular<RecInt::ruint<7>, RecInt::ruint<7> >);
    REG("ru7_8", Modular<RecInt::ruint<7>, RecInt::ruint<8> >);
    REG("mg32", Montgomery<int32_t>); REG("mgru7", Montgomery<RecInt::ruint<7> >);
    REG("log16", Modular<Log16>);
    REGP("i32_i64", Modular<int32_t, int64_t>); REGP("d_d", Modular<double, double>); REGP("zz", Modular<Integer>);
    REGP("bi32", ModularBalanced<int32_t>); REGP("i8_i16", Modular<int8_t, int16_t>);
    REGP("mg32", Montgomery<int32_t>); REGP("bd", ModularBalanced<double>); REGP("u64_u64", Modular<uint64_t, uint64_t>);
#endif

    std::string line;
    while (std::getline(std::cin, line)) {
        std::istringstream ls(line); std::string op, t; ls >> op; if (!ls) continue;
        Args a; while (ls >> t) a.push_back(t);
        std::string out;
        arm(budget);
        try {
            if (op.compare(0, 4, "int.") == 0) out = int_ops(op, a);
            else if (op.compare(0, 4, "rat.") == 0) out = rat_ops(op, a);
#ifndef C19_NOCXX
            else if (op.compare(0, 5, "ring.") == 0) {
                std::string r = a[0]; a.erase(a.begin());
                out = rings.count(r) ? rings[r](op, a) : "UNKNOWN-RING";
            } else if (op.compare(0, 5, "poly.") == 0) {
                std::string r = a[0]; a.erase(a.begin());
                out = polys.count(r) ? polys[r](op, a) : "UNKNOWN-RING";
            } else if (op.compare(0, 4, "gfq.") == 0) {
                std::string w = a[0]; a.erase(a.begin());
                out = (w == "32") ? GfqIO<int32_t>::go(op, a) : GfqIO<int64_t>::go(op, a);
            } else if (op == "rm.seqd") {         // mg K ...
                std::string mg = a[0], k = a[1]; a.erase(a.begin(), a.begin() + 2);
                out = (k == "6") ? (mg == "1" ? rm_seqd<6, RecInt::MGA>(a) : rm_seqd<6, RecInt::MGI>(a))
                                 : (mg == "1" ? rm_seqd<7, RecInt::MGA>(a) : rm_seqd<7, RecInt::MGI>(a));
            } else if (op == "mix.rt") {
                out = mix_rt(a);
            } else if (op.compare(0, 4, "ext.") == 0) {
                out = ext_ops(op, a);
            } else if (op == "indet.rt") {        // name tail: operator<<(Indeter) then operator>>(Indeter)
                Indeter X(unhex(a[0])), Y("none"); std::ostringstream o; o << X;
                std::istringstream is(o.str() + unhex(a[1])); is >> Y;
                std::ostringstream o2; o2 << Y;
                out = hex(o.str()) + " " + (X.compare(Y) == 0 ? "1" : "0") + " " + hex(o2.str()) + " " + after(is);
            } else if (op == "numget") {
                std::string w = a[0]; a.erase(a.begin());
                out = (w == "32") ? numget<int32_t>(a) : numget<int64_t>(a);
            } else if (op.compare(0, 3, "ru.") == 0 || op.compare(0, 3, "ri.") == 0) {
                int K = atoi(a[0].c_str());
                out = K == 6 ? RecIO<6>::go(op, a) : K == 7 ? RecIO<7>::go(op, a) : K == 8 ? RecIO<8>::go(op, a)
                    : K == 9 ? RecIO<9>::go(op, a) : K == 10 ? RecIO<10>::go(op, a) : K == 11 ? RecIO<11>::go(op, a) : K == 12 ? RecIO<12>::go(op, a) : "UNSUPPORTED-K";
            }
#endif
            else out = "UNKNOWN-OP";
        } catch (...) { out = "EXCEPTION"; }
        arm(0);
        std::cout << out << "\n" << std::flush;
    }
    return 0;
}
