// C19 harness: text output / input of /repo's current sources on cases read from stdin.
// Text travels as hex bytes ("-" = empty).  One result line per case; see checks/C19.py.
//   reads print:  <value> <remaining characters, hex> <eofbit><failbit>
#include <iostream>
#include <sstream>
#include <string>
#include <vector>
#include <map>
#include <memory>
#include <iterator>
#include <cstdlib>
#include "givinteger.h"
#include "givrational.h"
#include "qfield.h"
#include "zring.h"
#include "modular.h"
#include "modular-balanced.h"
#include "modular-extended.h"
#include "montgomery.h"
#include "gfq.h"
#include "givpoly1.h"
#include <recint/recint.h>

using namespace Givaro;
typedef std::vector<std::string> Args;

static std::string unhex(const std::string& h) {
    if (h == "-") return "";
    std::string r;
    for (size_t i = 0; i + 1 < h.size(); i += 2) r.push_back((char) strtol(h.substr(i, 2).c_str(), 0, 16));
    return r;
}
static std::string hex(const std::string& s) {
    if (s.empty()) return "-";
    static const char* d = "0123456789abcdef";
    std::string r;
    for (size_t i = 0; i < s.size(); ++i) { unsigned char c = (unsigned char) s[i]; r.push_back(d[c >> 4]); r.push_back(d[c & 15]); }
    return r;
}
// stream state and the characters not consumed
static std::string after(std::istream& is) {
    bool e = is.eof(), f = is.fail();
    is.clear();
    std::string rest((std::istreambuf_iterator<char>(is.rdbuf())), std::istreambuf_iterator<char>());
    return hex(rest) + " " + (e ? "1" : "0") + (f ? "1" : "0");
}
static std::string show(const Integer& z) { char* s = mpz_get_str(0, 10, z.get_mpz_const()); std::string r(s); free(s); return r; }
static Integer parseZ(const std::string& s) { Integer z; mpz_set_str(z.get_mpz(), s.c_str(), 10); return z; }
static std::vector<std::string> split(const std::string& s, char sep) {
    std::vector<std::string> v; if (s == "-") return v;
    std::string cur; for (size_t i = 0; i < s.size(); ++i) { if (s[i] == sep) { v.push_back(cur); cur.clear(); } else cur.push_back(s[i]); }
    v.push_back(cur); return v;
}

// ---------------------------------------------------------------- Integer
static std::string int_ops(const std::string& op, const Args& a) {
    if (op == "int.read.op" || op == "int.read.zring") {
        Integer x = parseZ(a[0]); std::istringstream is(unhex(a[1]));
        if (op == "int.read.op") is >> x; else { ZRing<Integer> Z; Z.read(is, x); }
        return show(x) + " " + after(is);
    }
    if (op == "int.write.op") { std::ostringstream o; o << parseZ(a[0]); return hex(o.str()); }
    if (op == "int.write.print") { std::ostringstream o; parseZ(a[0]).print(o); return hex(o.str()); }
    if (op == "int.write.string") { std::string s = (std::string) parseZ(a[0]); return hex(s); }
    if (op == "int.write.zring") { std::ostringstream o; ZRing<Integer> Z; Z.write(o, parseZ(a[0])); return hex(o.str()); }
    if (op == "int.write.abs") { std::ostringstream o; absOutput(o, parseZ(a[0])); return hex(o.str()); }
    if (op == "int.rt.op" || op == "int.rt.zring" || op == "int.rt.print") {      // z old tail
        std::ostringstream o; ZRing<Integer> Z; Integer z = parseZ(a[0]), x = parseZ(a[1]);
        if (op == "int.rt.op") o << z; else if (op == "int.rt.print") z.print(o); else Z.write(o, z);
        std::istringstream is(o.str() + unhex(a[2]));
        if (op == "int.rt.zring") Z.read(is, x); else is >> x;
        return hex(o.str()) + " " + show(x) + " " + after(is);
    }
    if (op == "int.rtb") {      // base z old tail: Integer through streams in hex / oct mode (GMP honours basefield on both sides)
        int base = atoi(a[0].c_str()); Integer z = parseZ(a[1]), x = parseZ(a[2]); std::ostringstream o;
        if (base == 16) o << std::hex; else if (base == 8) o << std::oct;
        o << z;
        std::istringstream is(o.str() + unhex(a[3]));
        if (base == 16) is >> std::hex; else if (base == 8) is >> std::oct;
        is >> x;
        return hex(o.str()) + " " + show(x) + " " + after(is);
    }
    if (op == "int.strrt") { Integer z = parseZ(a[0]); std::string t = (std::string) z; Integer x(t.c_str()); return hex(t) + " " + show(x); }
    if (op == "int.cstr") { std::string s = unhex(a[0]); Integer x(s.c_str()); return show(x); }
    if (op == "int.seq") {
        int n = atoi(a[0].c_str()); std::istringstream is(unhex(a[1])); std::string r;
        for (int i = 0; i < n; ++i) { Integer x(0); is >> x; r += (i ? "," : "") + show(x); }
        if (n == 0) r = "-";
        return r + " " + after(is);
    }
    return "UNKNOWN-OP";
}

// ---------------------------------------------------------------- Rational
static std::string showq(const Rational& q) { return show(q.nume()) + "/" + show(q.deno()); }
static std::string rat_ops(const std::string& op, const Args& a) {
    if (op == "rat.read.op" || op == "rat.read.qfield") {
        std::istringstream is(unhex(a[0])); Rational r(7, 3); std::string v;
        try { if (op == "rat.read.op") is >> r; else { QField<Rational> Q; Q.read(is, r); } v = showq(r); } catch (...) { v = "EXC"; }
        return v + " " + after(is);
    }
    if (op == "rat.cstr") {
        std::string s = unhex(a[0]);
        try { Rational r(s.c_str()); return showq(r); } catch (...) { return "EXC"; }
    }
    if (op == "rat.norm") {
        try { Rational r(parseZ(a[0]), parseZ(a[1])); return showq(r); } catch (...) { return "EXC"; }
    }
    if (op == "rat.write.op" || op == "rat.write.print" || op == "rat.write.qfield") {
        Rational r(parseZ(a[0]), parseZ(a[1]), 0);          // stored as given (no reduction)
        std::ostringstream o;
        if (op == "rat.write.op") o << r; else if (op == "rat.write.print") r.print(o); else { QField<Rational> Q; Q.write(o, r); }
        return hex(o.str());
    }
    if (op == "rat.rt.op" || op == "rat.rt.qfield" || op == "rat.rt.print") {     // n d tail   (n/d canonical)
        Rational r(parseZ(a[0]), parseZ(a[1]), 0), x(7, 3); QField<Rational> Q; std::ostringstream o; std::string v;
        if (op == "rat.rt.op") o << r; else if (op == "rat.rt.print") r.print(o); else Q.write(o, r);
        std::istringstream is(o.str() + unhex(a[2]));
        try { if (op == "rat.rt.qfield") Q.read(is, x); else is >> x; v = showq(x); } catch (...) { v = "EXC"; }
        return hex(o.str()) + " " + v + " " + after(is);
    }
    if (op == "rat.strrt") {
        Rational r(parseZ(a[0]), parseZ(a[1]), 0); std::ostringstream o; o << r;
        try { Rational x(o.str().c_str()); return hex(o.str()) + " " + showq(x); } catch (...) { return hex(o.str()) + " EXC"; }
    }
    if (op == "rat.seq") {
        int n = atoi(a[0].c_str()); std::istringstream is(unhex(a[1])); std::string r;
        for (int i = 0; i < n; ++i) {
            std::string v; Rational q(7, 3);
            try { is >> q; v = showq(q); } catch (...) { v = "EXC"; }
            r += (i ? "," : "") + v;
        }
        if (n == 0) r = "-";
        return r + " " + after(is);
    }
    return "UNKNOWN-OP";
}

// ---------------------------------------------------------------- residue types from text
template <class T, class En = void> struct RP { static T parse(const std::string& s) { return (T) parseZ(s); } };
template <size_t K> struct RP<RecInt::ruint<K> > { static RecInt::ruint<K> parse(const std::string& s) { Integer z = parseZ(s); RecInt::ruint<K> r(z); return r; } };

// ---------------------------------------------------------------- ring / field elements
template <class Ring> struct RingIO {
    typedef typename Ring::Element E;
    static std::string norm(const Ring& F, const E& e, const Integer& p) { Integer v; F.convert(v, e); v %= p; if (v < 0) v += p; return show(v); }
    static std::string go(const std::string& op, const Args& a) {
        if (op == "ring.maxc") { Integer m; Caster(m, Ring::maxCardinality()); return show(m); }
        static std::unique_ptr<Ring> cur; static std::string curp;
        if (!cur || curp != a[0]) { cur.reset(new Ring(RP<typename Ring::Residu_t>::parse(a[0]))); curp = a[0]; }
        const Ring& F = *cur; Integer p = parseZ(a[0]);
        if (op == "ring.write") { E e; F.init(e, parseZ(a[1])); std::ostringstream o; F.write(o, e); return hex(o.str()); }
        if (op == "ring.read") { E e; F.init(e, Integer(1)); std::istringstream is(unhex(a[1])); F.read(is, e); return norm(F, e, p) + " " + after(is); }
        if (op == "ring.rt") {      // write, then read text + rest back
            E e, e2; F.init(e, parseZ(a[1])); F.init(e2, Integer(1)); std::ostringstream o; F.write(o, e);
            std::istringstream is(o.str() + unhex(a[2])); F.read(is, e2);
            return hex(o.str()) + " " + (F.areEqual(e, e2) ? "1" : "0") + " " + norm(F, e2, p) + " " + after(is);
        }
        return "UNKNOWN-OP";
    }
};

// ---------------------------------------------------------------- polynomials
template <class Ring> struct PolyIO {
    typedef Poly1Dom<Ring, Dense> PD; typedef typename PD::Element P; typedef typename Ring::Element E;
    static std::string showp(const Ring& F, const P& A, const Integer& p) {
        if (A.size() == 0) return "-";
        std::string r; for (size_t i = 0; i < A.size(); ++i) r += (i ? "," : "") + RingIO<Ring>::norm(F, A[i], p);
        return r;
    }
    static std::string go(const std::string& op, const Args& a) {
        Ring F(RP<typename Ring::Residu_t>::parse(a[0])); Integer p = parseZ(a[0]);
        if (op == "poly.write" || op == "poly.rt") {
            PD D(F, Indeter(unhex(a[1]))); std::vector<std::string> cs = split(a[2], ',');
            P A(cs.size()); for (size_t i = 0; i < cs.size(); ++i) F.init(A[i], parseZ(cs[i]));
            std::ostringstream o; D.write(o, A);
            if (op == "poly.write") return hex(o.str());
            P B; std::istringstream is(o.str()); std::string eq;
            long deg = -1; { std::istringstream t(o.str()); t >> deg; }      // what the reader will take as the degree
            if (deg < 0 || deg > 100000) return hex(o.str()) + " 0 NOT-READ - 00";
            D.read(is, B);
            D.setdegree(A);
            return hex(o.str()) + " " + (D.areEqual(A, B) ? "1" : "0") + " " + showp(F, B, p) + " " + after(is);
        }
        if (op == "poly.read") {
            PD D(F, Indeter("X")); P B; std::istringstream is(unhex(a[1])); D.read(is, B);
            return showp(F, B, p) + " " + after(is);
        }
        return "UNKNOWN-OP";
    }
};

// ---------------------------------------------------------------- GFq
template <class T> struct GfqIO {
    static std::string go(const std::string& op, const Args& a) {
        typedef GFqDom<T> Fld; static std::unique_ptr<Fld> cur; static std::string key;
        std::string k = a[0] + "^" + a[1];
        if (!cur || key != k) { cur.reset(new Fld((typename Fld::Residu_t) atoll(a[0].c_str()), (typename Fld::Residu_t) atoll(a[1].c_str()))); key = k; }
        const Fld& F = *cur;
        if (op == "gfq.rt") {           // element by its internal representation (Zech logarithm index)
            typename Fld::Element e = (typename Fld::Element) atoll(a[2].c_str()), e2 = 0;
            std::ostringstream o; F.write(o, e);
            std::istringstream is(o.str() + unhex(a[3])); F.read(is, e2);
            int64_t v2; F.convert(v2, e2);
            return hex(o.str()) + " " + (F.areEqual(e, e2) ? "1" : "0") + " " + std::to_string((long long) v2) + " " + after(is);
        }
        if (op == "gfq.read") {         // value as the integer convert() gives
            typename Fld::Element e = 0; std::istringstream is(unhex(a[2])); F.read(is, e);
            int64_t v; F.convert(v, e);
            return std::to_string((long long) v) + " " + after(is);
        }
        return "UNKNOWN-OP";
    }
};

// ---------------------------------------------------------------- RecInt
// rint<K> from a signed integer (rint's template constructor takes the ruint path, which is for values >= 0)
template <size_t K> static RecInt::rint<K> mkrint(const Integer& z) { RecInt::rint<K> r; RecInt::mpz_t_to_rint(r, z.get_mpz_const()); return r; }
template <size_t K> struct RecIO {
    static std::string go(const std::string& op, const Args& a) {
        bool hx = (a[1] == "1");
        if (op == "ru.write") { RecInt::ruint<K> x(parseZ(a[2])); std::ostringstream o; if (hx) o << std::hex; o << x; return hex(o.str()); }
        if (op == "ru.read") {
            RecInt::ruint<K> x(5); std::istringstream is(unhex(a[2])); if (hx) is >> std::hex; is >> x;
            Integer z(x); return show(z) + " " + after(is);
        }
        if (op == "ru.rt") {
            RecInt::ruint<K> x(parseZ(a[2])), y(5); std::ostringstream o; if (hx) o << std::hex; o << x;
            std::istringstream is(o.str() + unhex(a[3])); if (hx) is >> std::hex; is >> y;
            Integer z(y); return hex(o.str()) + " " + show(z) + " " + after(is);
        }
        if (op == "ri.rt") {
            RecInt::rint<K> x(mkrint<K>(parseZ(a[2]))), y(5); std::ostringstream o; if (hx) o << std::hex; o << x;
            std::istringstream is(o.str() + unhex(a[3])); if (hx) is >> std::hex; is >> y;
            Integer z(y); return hex(o.str()) + " " + show(z) + " " + after(is);
        }
        if (op == "ri.write") { RecInt::rint<K> x(mkrint<K>(parseZ(a[2]))); std::ostringstream o; if (hx) o << std::hex; o << x; return hex(o.str()); }
        if (op == "ri.read") {
            RecInt::rint<K> x(5); std::istringstream is(unhex(a[2])); if (hx) is >> std::hex; is >> x;
            Integer z(x); return show(z) + " " + after(is);
        }
        return "UNKNOWN-OP";
    }
};

// plain num_get (what ModularBalanced<intN>, ModularExtended, GFqDom and the polynomial reader rely on)
template <class T> static std::string numget(const Args& a) {
    T v = (T) atoll(a[0].c_str()); std::istringstream is(unhex(a[1])); is >> v;
    return std::to_string((long long) v) + " " + after(is);
}

typedef std::string (*Fn)(const std::string&, const Args&);
static std::map<std::string, Fn> rings, polys;
#define REG(name, ...) rings[name] = &RingIO<__VA_ARGS__ >::go
#define REGP(name, ...) polys[name] = &PolyIO<__VA_ARGS__ >::go

int main() {
    REG("i8_i8", Modular<int8_t, int8_t>);     REG("i8_i16", Modular<int8_t, int16_t>);
    REG("u8_u8", Modular<uint8_t, uint8_t>);   REG("u8_u16", Modular<uint8_t, uint16_t>);
    REG("i16_i32", Modular<int16_t, int32_t>); REG("u16_u32", Modular<uint16_t, uint32_t>);
    REG("i32_i32", Modular<int32_t, int32_t>); REG("i32_i64", Modular<int32_t, int64_t>);
    REG("u32_u64", Modular<uint32_t, uint64_t>);
    REG("i64_i64", Modular<int64_t, int64_t>); REG("i64_u64", Modular<int64_t, uint64_t>);
    REG("u64_u64", Modular<uint64_t, uint64_t>);
    REG("i16_i16", Modular<int16_t, int16_t>); REG("u16_u16", Modular<uint16_t, uint16_t>); REG("u32_u32", Modular<uint32_t, uint32_t>);
    REG("i64_u128", Modular<int64_t, uint128_t>); REG("u64_u128", Modular<uint64_t, uint128_t>);
    REG("f_f", Modular<float, float>); REG("f_d", Modular<float, double>); REG("d_d", Modular<double, double>);
    REG("bi32", ModularBalanced<int32_t>); REG("bi64", ModularBalanced<int64_t>);
    REG("bf", ModularBalanced<float>); REG("bd", ModularBalanced<double>);
    REG("ef", ModularExtended<float>); REG("ed", ModularExtended<double>);
    REG("zz", Modular<Integer>);
    REG("ru6_6", Modular<RecInt::ruint<6>, RecInt::ruint<6> >); REG("ru7_7", Modular<RecInt::ruint<7>, RecInt::ruint<7> >);
    REG("ru7_8", Modular<RecInt::ruint<7>, RecInt::ruint<8> >);
    REG("mg32", Montgomery<int32_t>); REG("mgru7", Montgomery<RecInt::ruint<7> >);
    REG("log16", Modular<Log16>);
    REGP("i32_i64", Modular<int32_t, int64_t>); REGP("d_d", Modular<double, double>); REGP("zz", Modular<Integer>);
    REGP("bi32", ModularBalanced<int32_t>); REGP("i8_i16", Modular<int8_t, int16_t>);
    REGP("mg32", Montgomery<int32_t>); REGP("bd", ModularBalanced<double>); REGP("u64_u64", Modular<uint64_t, uint64_t>);

    std::string line;
    while (std::getline(std::cin, line)) {
        std::istringstream ls(line); std::string op, t; ls >> op; if (!ls) continue;
        Args a; while (ls >> t) a.push_back(t);
        std::string out;
        try {
            if (op.compare(0, 4, "int.") == 0) out = int_ops(op, a);
            else if (op.compare(0, 4, "rat.") == 0) out = rat_ops(op, a);
            else if (op.compare(0, 5, "ring.") == 0) {
                std::string r = a[0]; a.erase(a.begin());
                out = rings.count(r) ? rings[r](op, a) : "UNKNOWN-RING";
            } else if (op.compare(0, 5, "poly.") == 0) {
                std::string r = a[0]; a.erase(a.begin());
                out = polys.count(r) ? polys[r](op, a) : "UNKNOWN-RING";
            } else if (op.compare(0, 4, "gfq.") == 0) {
                std::string w = a[0]; a.erase(a.begin());
                out = (w == "32") ? GfqIO<int32_t>::go(op, a) : GfqIO<int64_t>::go(op, a);
            } else if (op == "indet.rt") {        // name tail: operator<<(Indeter) then operator>>(Indeter)
                Indeter X(unhex(a[0])), Y("none"); std::ostringstream o; o << X;
                std::istringstream is(o.str() + unhex(a[1])); is >> Y;
                std::ostringstream o2; o2 << Y;
                out = hex(o.str()) + " " + (X.compare(Y) == 0 ? "1" : "0") + " " + hex(o2.str()) + " " + after(is);
            } else if (op == "numget") {
                std::string w = a[0]; a.erase(a.begin());
                out = (w == "32") ? numget<int32_t>(a) : numget<int64_t>(a);
            } else if (op.compare(0, 3, "ru.") == 0 || op.compare(0, 3, "ri.") == 0) {
                int K = atoi(a[0].c_str());
                out = K == 6 ? RecIO<6>::go(op, a) : K == 7 ? RecIO<7>::go(op, a) : K == 8 ? RecIO<8>::go(op, a)
                    : K == 9 ? RecIO<9>::go(op, a) : K == 10 ? RecIO<10>::go(op, a) : K == 11 ? RecIO<11>::go(op, a) : K == 12 ? RecIO<12>::go(op, a) : "UNSUPPORTED-K";
            } else out = "UNKNOWN-OP";
        } catch (...) { out = "EXCEPTION"; }
        std::cout << out << "\n";
    }
    return 0;
}
