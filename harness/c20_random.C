// C20 harness: every random generator of /repo's current tree.
//   one case per line, one result line per case (or "TIMEOUT" when a draw does not return within the time limit).
//   Every case is executed TWICE from freshly built generators with the same seed; "NONREPRO a || b" when the
//   two executions differ (seed 0 = timer seed is excluded from that comparison by the caller).
//
//   lcg <form> <seed> <n>                          GivRandom:   seed() after construction, n draws, final seed()
//        forms: call brand u8 u16 u32 u64 i8 i16 i32 i64 copy assign maxrand
//   ring <type> <p> <op> <seed> <n> [size]         ring/field draws on GivRandom; prints "raw:value" per draw, then "| state"
//        ops: random random_sz nzrandom nzrandom_sz iter nziter itercopy
//   poly <type> <p> <form> <seed> <d>              Poly1Dom<type,Dense>::random / nonzerorandom forms; coefficients low..high
//   int <op> <variant> <seed> <args...>            Integer range constructions; prints "result ; trace" where trace is the
//                                                  list of requests made to GMP's generator with the answers (link-time wrap of
//                                                  mpz_urandomb / mpz_urandomm / gmp_randseed_ui / gmp_randseed)
//   rii <U> <E> <seed> <samplesize|-> <n>          RandomIntegerIterator<U,E>
//   mii <seed> <size> <p> <n>                      ModularRandIter<Modular<Integer>>
//   ru <K> <seed> <n>                              RecInt::rand(ruint<K>) after RecInt::srand(seed); prints values ; limbs of a twin mt19937_64
//   rm <K> <mg> <p> <seed> <n>                     rmint<K,MGI> (mg=0) / rmint<K,MGA> (mg=1): rand(a), a.random(); rint<K> (mg=2): rand(a)
//   modru <type> <p> <op> <seed> <n>               Modular<ruint<K>> / Montgomery<ruint<K>> random / nzrandom ; values ; limbs consumed
#include <iostream>
#include <sstream>
#include <string>
#include <vector>
#include <map>
#include <memory>
#include <random>
#include <limits>
#include <cstdlib>
#include <cstdio>
#include <cmath>
#include <csetjmp>
#include <csignal>
#include <sys/time.h>
#include <sys/wait.h>
#include <unistd.h>
#include "givinteger.h"
#include "givrandom.h"
#include "givranditer.h"
#include "modular.h"
#include "modular-balanced.h"
#include "modular-extended.h"
#include "montgomery.h"
#include "gfq.h"
#include "gf2.h"
#include "givpoly1.h"
#include "random-integer.h"
#include "extension.h"
#include "gfqext.h"
#include "qfield.h"
#include "givrational.h"
#include <recint/recint.h>

using namespace Givaro;
typedef std::vector<std::string> Args;

// ---------------------------------------------------------------- GMP generator trace (link-time --wrap)
static std::vector<std::string> g_trace;
static std::string zstr(mpz_srcptr z) { char* s = mpz_get_str(0, 10, z); std::string r(s); free(s); return r; }
extern "C" {
    void __real___gmpz_urandomb(mpz_ptr, gmp_randstate_t, mp_bitcnt_t);
    void __real___gmpz_urandomm(mpz_ptr, gmp_randstate_t, mpz_srcptr);
    void __real___gmp_randseed_ui(gmp_randstate_t, unsigned long);
    void __real___gmp_randseed(gmp_randstate_t, mpz_srcptr);
    void __wrap___gmpz_urandomb(mpz_ptr r, gmp_randstate_t st, mp_bitcnt_t n) {
        __real___gmpz_urandomb(r, st, n);
        g_trace.push_back("b" + std::to_string((unsigned long long) n) + "=" + zstr(r));
    }
    void __wrap___gmpz_urandomm(mpz_ptr r, gmp_randstate_t st, mpz_srcptr m) {
        std::string ms = zstr(m);            // r may alias m
        __real___gmpz_urandomm(r, st, m);
        g_trace.push_back("m" + ms + "=" + zstr(r));
    }
    void __wrap___gmp_randseed_ui(gmp_randstate_t st, unsigned long s) {
        __real___gmp_randseed_ui(st, s);
        g_trace.push_back("s" + std::to_string((unsigned long long) s) + "=0");
    }
    void __wrap___gmp_randseed(gmp_randstate_t st, mpz_srcptr s) {
        __real___gmp_randseed(st, s);
        g_trace.push_back("s" + zstr(s) + "=0");
    }
}
static std::string trace_str() {
    std::string o;
    for (size_t i = 0; i < g_trace.size(); ++i) { if (i) o += " "; o += g_trace[i]; }
    return o;
}

// ---------------------------------------------------------------- text <-> values
static uint64_t pu64(const std::string& s) { return (uint64_t) strtoull(s.c_str(), 0, 10); }
static int64_t pi64(const std::string& s) { return (int64_t) strtoll(s.c_str(), 0, 10); }
template <class T, class En = void> struct IO;
template <class T> struct IO<T, typename std::enable_if<std::is_integral<T>::value && std::is_signed<T>::value>::type> {
    static T parse(const std::string& s) { return (T) strtoll(s.c_str(), 0, 10); }
    static std::string show(const T& x) { return std::to_string((long long) x); }
};
template <class T> struct IO<T, typename std::enable_if<std::is_integral<T>::value && std::is_unsigned<T>::value>::type> {
    static T parse(const std::string& s) { return (T) strtoull(s.c_str(), 0, 10); }
    static std::string show(const T& x) { return std::to_string((unsigned long long) x); }
};
template <class T> struct IO<T, typename std::enable_if<std::is_floating_point<T>::value>::type> {
    static T parse(const std::string& s) { return (T) strtod(s.c_str(), 0); }
    static std::string show(const T& x) {
        char b[64]; double d = (double) x;
        if (d != std::floor(d)) { snprintf(b, 64, "NONINT(%.17g)", d); return b; }
        snprintf(b, 64, "%.0f", d); std::string r(b); if (r == "-0") r = "0"; return r;
    }
};
template <> struct IO<Integer> {
    static Integer parse(const std::string& s) { return Integer(s.c_str()); }
    static std::string show(const Integer& x) { std::ostringstream o; o << x; return o.str(); }
};
template <size_t K> struct IO<RecInt::ruint<K> > {
    static RecInt::ruint<K> parse(const std::string& s) { Integer z(s.c_str()); RecInt::ruint<K> r(z); return r; }
    static std::string show(const RecInt::ruint<K>& x) { Integer z(x); std::ostringstream o; o << z; return o.str(); }
};
static std::string S(const Integer& x) { return IO<Integer>::show(x); }

// ---------------------------------------------------------------- Part A: GivRandom
static std::string lcg(const std::string& form, uint64_t seed, int n) {
    std::ostringstream o;
    GivRandom g(seed);
    o << g.seed();
    if (form == "maxrand") { o << " " << g.max_rand(); return o.str(); }
    GivRandom h(g);            // copy constructor
    GivRandom k(12345); k = g; // assignment
    for (int i = 0; i < n; ++i) {
        if (form == "call") o << " " << g();
        else if (form == "brand") o << " " << (g.brand() ? 1 : 0);
        else if (form == "u8") { uint8_t x = 0x55; uint8_t& y = g(x); o << " " << (unsigned) x << ":" << (&y == &x); }
        else if (form == "u16") { uint16_t x = 0x5555; g(x); o << " " << x; }
        else if (form == "u32") { uint32_t x = 0x55555555u; g(x); o << " " << x; }
        else if (form == "u64") { uint64_t x = 0x5555555555555555ull; g(x); o << " " << x; }
        else if (form == "i8") { int8_t x = 0x55; g(x); o << " " << (int) x; }
        else if (form == "i16") { int16_t x = 0x5555; g(x); o << " " << x; }
        else if (form == "i32") { int32_t x = 0x55555555; g(x); o << " " << x; }
        else if (form == "i64") { int64_t x = 0x5555555555555555ll; g(x); o << " " << x; }
        else if (form == "copy") { uint64_t a = g(), b = h(); o << " " << a << ":" << b; }
        else if (form == "assign") { uint64_t a = g(), b = k(); o << " " << a << ":" << b; }
        else return "UNKNOWN-FORM";
    }
    o << " | " << g.seed();
    return o.str();
}

// ---------------------------------------------------------------- Part B: rings on GivRandom
template <class Ring> struct Val {          // value of an element as an integer (convert)
    static std::string show(const Ring& F, const typename Ring::Element& e) { Integer z; F.convert(z, e); return S(z); }
};
template <> struct Val<GF2> { static std::string show(const GF2&, const bool& e) { return e ? "1" : "0"; } };
template <class T> struct Val<GFqDom<T> > {   // value: the exponent itself is the canonical datum; also print the residue for prime fields
    static std::string show(const GFqDom<T>& F, const typename GFqDom<T>::Element& e) {
        if (F.exponent() == 1 && e >= 0 && (uint64_t) e < (uint64_t) F.cardinality()) { int64_t z; F.convert(z, e); return std::to_string((long long) z); }
        return "x";
    }
};

template <class Ring, class En = void> struct Sized {   // rings with random(g, r, size) / nonzerorandom(g, r, size)
    enum { has = 0 };
    typedef typename Ring::Element E;
    static void random(const Ring&, GivRandom&, E&, const std::string&) {}
    static void nzrandom(const Ring&, GivRandom&, E&, const std::string&) {}
};
template <class S_, class C_> struct Sized<Modular<S_, C_>, typename std::enable_if<std::is_integral<S_>::value>::type> {
    enum { has = 1 };
    typedef Modular<S_, C_> Ring; typedef typename Ring::Element E; typedef typename Ring::Residu_t R;
    static void random(const Ring& F, GivRandom& g, E& r, const std::string& sz) { R s = IO<R>::parse(sz); E& q = F.random(g, r, s); if (&q != &r) abort(); }
    static void nzrandom(const Ring& F, GivRandom& g, E& r, const std::string& sz) { R s = IO<R>::parse(sz); F.nonzerorandom(g, r, s); }
};
template <class T> struct Sized<GFqDom<T>, void> {
    enum { has = 1 };
    typedef GFqDom<T> Ring; typedef typename Ring::Element E; typedef typename Ring::Residu_t R;
    static void random(const Ring& F, GivRandom& g, E& r, const std::string& sz) { R s = IO<R>::parse(sz); F.random(g, r, s); }
    static void nzrandom(const Ring& F, GivRandom& g, E& r, const std::string& sz) { R s = IO<R>::parse(sz); F.nonzerorandom(g, r, s); }
};
template <> struct Sized<GF2, void> {
    enum { has = 1 };
    typedef GF2 Ring; typedef bool E;
    static void random(const Ring& F, GivRandom& g, E& r, const std::string& sz) { F.random(g, r, (uint8_t) pu64(sz)); }
    static void nzrandom(const Ring& F, GivRandom& g, E& r, const std::string& sz) { F.nonzerorandom(g, r, (uint8_t) pu64(sz)); }
};

template <class Ring> struct Mk { static Ring* make(const std::string& ps) { return new Ring(IO<typename Ring::Residu_t>::parse(ps)); } };
template <class T> struct Mk<GFqDom<T> > {      // "p^e"
    static GFqDom<T>* make(const std::string& ps) {
        size_t c = ps.find('^'); uint64_t p = pu64(ps.substr(0, c)), e = (c == std::string::npos) ? 1 : pu64(ps.substr(c + 1));
        return new GFqDom<T>((typename GFqDom<T>::Residu_t) p, (typename GFqDom<T>::Residu_t) e);
    }
};
template <class T> struct Mk<GFqExtFast<T> > {
    static GFqExtFast<T>* make(const std::string& ps) {
        size_t c = ps.find('^'); uint64_t p = pu64(ps.substr(0, c)), e = (c == std::string::npos) ? 1 : pu64(ps.substr(c + 1));
        return new GFqExtFast<T>((typename GFqDom<T>::Residu_t) p, (typename GFqDom<T>::Residu_t) e);
    }
};
template <class T> struct Mk<GFqExt<T> > {
    static GFqExt<T>* make(const std::string& ps) {
        size_t c = ps.find('^'); uint64_t p = pu64(ps.substr(0, c)), e = (c == std::string::npos) ? 1 : pu64(ps.substr(c + 1));
        return new GFqExt<T>((typename GFqDom<T>::Residu_t) p, (typename GFqDom<T>::Residu_t) e);
    }
};
template <class T> struct Val<GFqExtFast<T> > { static std::string show(const GFqExtFast<T>&, const typename GFqDom<T>::Element&) { return "x"; } };
template <class T> struct Val<GFqExt<T> > { static std::string show(const GFqExt<T>&, const typename GFqDom<T>::Element&) { return "x"; } };
template <class T> struct Sized<GFqExtFast<T>, void> : Sized<GFqDom<T>, void> {};
template <class T> struct Sized<GFqExt<T>, void> : Sized<GFqDom<T>, void> {};
template <class RI, bool = std::is_copy_assignable<RI>::value> struct Assign { static bool go(RI& a, const RI& b) { a = b; return true; } };
template <class RI> struct Assign<RI, false> { static bool go(RI&, const RI&) { return false; } };
template <> struct Mk<GF2> { static GF2* make(const std::string&) { return new GF2(); } };
template <class T> struct Mk<UnparametricZRing<T> > { static UnparametricZRing<T>* make(const std::string&) { return new UnparametricZRing<T>(); } };

template <class E> static std::string rawshow(const E& e) { return IO<E>::show(e); }
template <> std::string rawshow<bool>(const bool& e) { return e ? "1" : "0"; }

// destinations are never fresh: before every draw the element is preset, in rotation, to -1, the largest and the smallest value of
// its storage type (non-canonical for almost every modulus), zero, a non-integral float ... ; a draw must not depend on it
template <class E, class En = void> struct Junk {
    template <class Ring> static void set(const Ring& F, E& r, int i) { if (i % 2) F.assign(r, F.zero); else F.assign(r, F.mOne); }
};
template <class E> struct Junk<E, typename std::enable_if<std::is_integral<E>::value && !std::is_same<E, bool>::value>::type> {
    template <class Ring> static void set(const Ring& F, E& r, int i) {
        switch (i % 4) { case 0: F.assign(r, F.mOne); break; case 1: r = std::numeric_limits<E>::max(); break;
                         case 2: r = std::numeric_limits<E>::min(); break; default: F.assign(r, F.zero); break; }
    }
};
template <class E> struct Junk<E, typename std::enable_if<std::is_floating_point<E>::value>::type> {
    template <class Ring> static void set(const Ring& F, E& r, int i) {
        switch (i % 4) { case 0: F.assign(r, F.mOne); break; case 1: r = (E) 1e30; break; case 2: r = (E) -7.5; break; default: F.assign(r, F.zero); break; }
    }
};

template <class Ring> struct RingRun {
    typedef typename Ring::Element E;
    static std::string once(const Ring& F, const std::string& op, uint64_t seed, int n, const std::string& sz) {
        std::ostringstream o;
        E r; F.init(r);
        if (op == "random" || op == "random_sz" || op == "nzrandom" || op == "nzrandom_sz") {
            GivRandom g(seed);
            for (int i = 0; i < n; ++i) {
                Junk<E>::set(F, r, i);
                if (op == "random") F.random(g, r);
                else if (op == "nzrandom") F.nonzerorandom(g, r);
                else if (!Sized<Ring>::has) return "UNSUPPORTED";
                else if (op == "random_sz") Sized<Ring>::random(F, g, r, sz);
                else Sized<Ring>::nzrandom(F, g, r, sz);
                o << rawshow<E>(r) << ":" << Val<Ring>::show(F, r) << (F.isZero(r) ? "z" : "") << " ";
            }
            o << "| " << g.seed();
            return o.str();
        }
        typedef typename Ring::RandIter RI;
        typedef typename RI::Residu_t RR;
        RR size = IO<RR>::parse(sz);
        if (op == "iter" || op == "itercopy") {
            RI it(F, seed, size);
            std::unique_ptr<RI> cp;
            for (int i = 0; i < n; ++i) {
                if (op == "itercopy" && i == n / 2) cp.reset(new RI(it));      // copy in mid-stream: both continue alike
                Junk<E>::set(F, r, i + 1);
                switch (i % 4) {
                case 0: it.random(r); break;
                case 1: it(r); break;
                case 2: r = it(); break;
                default: r = it.random(); break;
                }
                o << rawshow<E>(r) << ":" << Val<Ring>::show(F, r) << (F.isZero(r) ? "z" : "");
                if (cp) { E c; F.init(c); cp->random(c); o << "=" << rawshow<E>(c); }
                o << " ";
            }
            return o.str();
        }
        if (op == "nziter") {
            RI it(F, seed, size);
            GeneralRingNonZeroRandIter<Ring, RI> nz(it);
            for (int i = 0; i < n; ++i) {
                Junk<E>::set(F, r, i + 3);
                switch (i % 3) {
                case 0: nz.random(r); break;
                case 1: nz(r); break;
                default: r = nz(); break;
                }
                o << rawshow<E>(r) << ":" << Val<Ring>::show(F, r) << (F.isZero(r) ? "z" : "") << " ";
            }
            return o.str();
        }
        return "UNKNOWN-OP";
    }
    static std::string go(const Args& a) {     // a = p op seed n [size]
        if (a.size() < 4) return "BAD-LINE";
        static std::unique_ptr<Ring> cur; static std::string curp;
        if (!cur || curp != a[0]) { cur.reset(Mk<Ring>::make(a[0])); curp = a[0]; }
        std::string sz = a.size() > 4 ? a[4] : "0";
        std::string s1 = once(*cur, a[1], pu64(a[2]), atoi(a[3].c_str()), sz);
        std::string s2 = once(*cur, a[1], pu64(a[2]), atoi(a[3].c_str()), sz);
        if (s1 != s2) return "NONREPRO " + s1 + " || " + s2;
        return s1;
    }
};

// polynomials over a ring
//   the destination is NOT fresh: preset 0 = empty, 1 = d+5 coefficients (-1), 2 = one coefficient, 3 = exactly d+1 coefficients (-1),
//   4 = 3d+40 coefficients alternating 0 / -1 (a "polynomial" that is not even normalised)
template <class Ring> struct PolyRun {
    typedef Poly1Dom<Ring, Dense> PD;
    typedef typename PD::Element P;
    static void preset(const Ring& F, P& r, int64_t d, int how) {
        size_t n = how == 1 ? (size_t) d + 5 : how == 2 ? 1 : how == 3 ? (size_t) d + 1 : how == 4 ? 3 * (size_t) d + 40 : 0;
        r.resize(n);
        for (size_t i = 0; i < n; ++i) { if (how == 4 && i % 2 == 0) F.assign(r[i], F.zero); else F.assign(r[i], F.mOne); }
    }
    static void show(std::ostream& o, const PD& D, const Ring& F, const P& r) {
        Degree dd; D.degree(dd, r);
        o << dd.value() << " " << r.size() << " ;";
        for (size_t i = 0; i < r.size(); ++i)
            o << " " << rawshow<typename Ring::Element>(r[i]) << ":" << Val<Ring>::show(F, r[i]) << (F.isZero(r[i]) ? "z" : "");
    }
    static bool draw(const PD& D, GivRandom& g, P& r, char form, int64_t d) {
        P b;
        switch (form) {
        case 'D': { P& q = D.random(g, r, Degree(d)); if (&q != &r) abort(); } break;
        case 'Z': D.random(g, r); break;
        case 'S': D.random(g, r, (uint64_t) (d + 1)); break;
        case 'L': b.resize((size_t) d + 1); D.random(g, r, b); break;
        case 'd': D.nonzerorandom(g, r, Degree(d)); break;
        case 'z': D.nonzerorandom(g, r); break;
        case 's': D.nonzerorandom(g, r, (uint64_t) (d + 1)); break;
        case 'l': b.resize((size_t) d + 1); D.nonzerorandom(g, r, b); break;
        default: return false;
        }
        return true;
    }
    static std::string once(const Ring& F, const std::string& form, uint64_t seed, int64_t d, int how) {
        PD D(F, Indeter("X"));
        GivRandom g(seed);
        P r;
        preset(F, r, d, how);
        char f = form == "deg" ? 'D' : form == "deg0" ? 'Z' : form == "size" ? 'S' : form == "like" ? 'L' : form == "nzdeg" ? 'd' : form == "nzdeg0" ? 'z'
               : form == "nzsize" ? 's' : form == "nzlike" ? 'l' : '?';
        if (!draw(D, g, r, f, d)) return "UNKNOWN-FORM";
        std::ostringstream o;
        show(o, D, F, r);
        o << " | " << g.seed();
        return o.str();
    }
    static std::string go(const Args& a) {     // a = p form seed d [preset]
        if (a.size() < 4) return "BAD-LINE";
        static std::unique_ptr<Ring> cur; static std::string curp;
        if (!cur || curp != a[0]) { cur.reset(Mk<Ring>::make(a[0])); curp = a[0]; }
        int how = a.size() > 4 ? atoi(a[4].c_str()) : 0;
        std::string s1 = once(*cur, a[1], pu64(a[2]), pi64(a[3]), how);
        std::string s2 = once(*cur, a[1], pu64(a[2]), pi64(a[3]), how);
        if (s1 != s2) return "NONREPRO " + s1 + " || " + s2;
        return s1;
    }
    // polyseq <type> <p> <seed> <preset> <op>...    ONE destination polynomial reused for a sequence of draws, degrees going up and down.
    //   op = form letter + degree:  D random(g,r,Degree) Z random(g,r) S random(g,r,size) L random(g,r,b)   d z s l: the nonzerorandom forms
    //        I<d> : Poly1Dom::RandIter (GIV_randIter<Poly1Dom>) built with seed+3 and sampling size d+1, drawn into the same destination
//        J<d> : the same through operator= : a used RandIter of sampling size 1 is assigned that iterator, then draws; its source draws the same
    //   prints "deg size ; coefficients" after EVERY step, separated by " / ", then "| state"
    static std::string seq_once(const Ring& F, uint64_t seed, int how, const Args& ops) {
        PD D(F, Indeter("X"));
        GivRandom g(seed);
        P r;
        preset(F, r, 7, how);
        std::ostringstream o;
        for (size_t k = 0; k < ops.size(); ++k) {
            char f = ops[k][0];
            int64_t d = ops[k].size() > 1 ? pi64(ops[k].substr(1)) : 0;
            if (f == 'I') {
                typedef typename PD::RandIter PRI;
                PRI it(D, (seed + 3) ? seed + 3 : 3, (typename PRI::Residu_t) (d + 1));
                if (k % 2) it.random(r); else it(r);
            }
            else if (f == 'J') {        // a RandIter of sampling size 1 (other seed, used) is ASSIGNED one of sampling size d+1: degree d expected
                typedef typename PD::RandIter PRI;
                PRI src(D, (seed + 3) ? seed + 3 : 3, (typename PRI::Residu_t) (d + 1));
                PRI dst(D, (seed + 5) ? seed + 5 : 5, (typename PRI::Residu_t) 1);
                { P t; dst.random(t); }
                dst = src;
                dst.random(r);
                P chk; src.random(chk);
                if (chk != r) return "ASSIGNED-DIFFERS";
            }
            else if (!draw(D, g, r, f, d)) return "UNKNOWN-OP";
            if (k) o << " / ";
            show(o, D, F, r);
        }
        o << " | " << g.seed();
        return o.str();
    }
    static std::string seq(const Args& a) {     // a = p seed preset ops...
        if (a.size() < 4) return "BAD-LINE";
        static std::unique_ptr<Ring> cur; static std::string curp;
        if (!cur || curp != a[0]) { cur.reset(Mk<Ring>::make(a[0])); curp = a[0]; }
        Args ops(a.begin() + 3, a.end());
        std::string s1 = seq_once(*cur, pu64(a[1]), atoi(a[2].c_str()), ops);
        std::string s2 = seq_once(*cur, pu64(a[1]), atoi(a[2].c_str()), ops);
        if (s1 != s2) return "NONREPRO " + s1 + " || " + s2;
        return s1;
    }
};

typedef std::string (*Fn)(const Args&);
static std::map<std::string, Fn> rings, polys, polyseqs, rurings;
#define REG(name, ...) rings[name] = &RingRun<__VA_ARGS__ >::go; ringseqs[name] = &RingSeq<__VA_ARGS__ >::go
#define REGP(name, ...) polys[name] = &PolyRun<__VA_ARGS__ >::go; polyseqs[name] = &PolyRun<__VA_ARGS__ >::seq

// ---------------------------------------------------------------- iterators as objects with state: operation sequences
// riiseq <U> <E> <seed> <samplesize|-> <op>...   ops: b<k> setBitsize(k) | + operator++ | * operator* | d randomInteger() | r random(a)
//        | c operator()(a) | v operator()() | R random() | C copy-construct, go on with the copy | A<ss|-> build another iterator
//        (seed+1, sample size ss), assign the current one to it, go on with that one
//   prints  "bits:current" after construction and "bits:current[:returned]" after EVERY step, then the GMP trace
template <bool U, bool E> static std::string riiseq_once(uint64_t seed, const std::string& ss, const Args& ops) {
    typedef RandomIntegerIterator<U, E> RII;
    g_trace.clear();
    ZRing<Integer> Z;
    std::unique_ptr<RII> it;
    if (ss == "-") it.reset(new RII(Z, seed)); else it.reset(new RII(Z, seed, Integer(ss.c_str())));
    std::ostringstream o;
    o << it->getBitsize() << ":" << S(**it);
    for (size_t k = 0; k < ops.size(); ++k) {
        const std::string& op = ops[k];
        std::string ret;
        Integer a(-77);
        if (op[0] == 'b') it->setBitsize((size_t) pu64(op.substr(1)));
        else if (op == "+") ++(*it);
        else if (op == "*") ret = S(**it);
        else if (op == "d") ret = S(it->randomInteger());
        else if (op == "r") { it->random(a); ret = S(a); }
        else if (op == "c") { (*it)(a); ret = S(a); }
        else if (op == "v") { a = (*it)(); ret = S(a); }
        else if (op == "R") { a = it->random(); ret = S(a); }
        else if (op == "C") { RII* n = new RII(*it); it.reset(n); }
        else if (op[0] == 'A') {
            std::string s2 = op.substr(1);
            uint64_t sd2 = (seed + 1) ? seed + 1 : 1;       // never 0: a zero seed means the timer
            RII* n = (s2 == "-") ? new RII(Z, sd2) : new RII(Z, sd2, Integer(s2.c_str()));
            *n = *it; it.reset(n);
        }
        else return "UNKNOWN-OP";
        o << " " << it->getBitsize() << ":" << S(**it);
        if (!ret.empty()) o << ":" << ret;
    }
    return o.str() + " ; " + trace_str();
}
struct RiiSeqCtx { int u, e; uint64_t seed; std::string ss; Args ops; };
static std::string riiseq_f(void* c) {
    RiiSeqCtx* x = (RiiSeqCtx*) c;
    if (x->u && x->e) return riiseq_once<true, true>(x->seed, x->ss, x->ops);
    if (x->u) return riiseq_once<true, false>(x->seed, x->ss, x->ops);
    if (x->e) return riiseq_once<false, true>(x->seed, x->ss, x->ops);
    return riiseq_once<false, false>(x->seed, x->ss, x->ops);
}

// ringseq <type> <p> <seed> <size> <ops> [size2]    ops: a string over  r c v R (the four draw forms of Ring::RandIter)
//        n m (NonZeroRandIter random(a) / operator()(a) on top of the current iterator)  C (copy, go on with the copy)
//        A (another iterator -- other ring object (modulus 3, or 5), sampling size size2, seed+17 -- draws once, is assigned the current one, go on with it)
//        S (the current iterator is assigned to itself)
template <class Ring> struct RingSeq {
    typedef typename Ring::Element E;
    typedef typename Ring::RandIter RI;
    static std::string once(const Ring& F, uint64_t seed, const std::string& sz, const std::string& ops, const std::string& sz2, const std::string& other_p) {
        typedef typename RI::Residu_t RR;
        RR size = IO<RR>::parse(sz), size2 = IO<RR>::parse(sz2);
        std::vector<std::unique_ptr<Ring> > others;          // the rings of the iterators that get assigned over (must outlive them)
        std::unique_ptr<RI> it(new RI(F, seed, size));
        std::unique_ptr<RI> shadow;            // the iterator the current one was copied / assigned from: must go on alike
        std::ostringstream o;
        E r; F.init(r);
        for (size_t k = 0; k < ops.size(); ++k) {
            char op = ops[k];
            Junk<E>::set(F, r, (int) k + 1);
            if (op == 'r') it->random(r);
            else if (op == 'c') (*it)(r);
            else if (op == 'v') r = (*it)();
            else if (op == 'R') r = it->random();
            else if (op == 'n') { GeneralRingNonZeroRandIter<Ring, RI> nz(*it); nz.random(r); }
            else if (op == 'm') { GeneralRingNonZeroRandIter<Ring, RI> nz(*it); GeneralRingNonZeroRandIter<Ring, RI> nz2(nz); nz2(r); }
            else if (op == 'C') { RI* n = new RI(*it); shadow.reset(it.release()); it.reset(n); continue; }
            else if (op == 'A') {
                // ASSIGNED over an iterator that differs in everything: another ring object (another modulus), another sampling size,
                // another seed, already used; it must go on exactly like its source (same ring, same size, same stream)
                others.push_back(std::unique_ptr<Ring>(Mk<Ring>::make(other_p)));
                RI* n = new RI(*others.back(), (seed + 17) ? seed + 17 : 17, size2);
                { E t; others.back()->init(t); n->random(t); }
                if (!Assign<RI>::go(*n, *it)) { delete n; return "UNSUPPORTED"; }
                shadow.reset(it.release()); it.reset(n); continue;
            }
            else if (op == 'S') { RI& self = *it; if (!Assign<RI>::go(*it, self)) return "UNSUPPORTED"; continue; }     // self-assignment: no effect
            else return "UNKNOWN-OP";
            o << rawshow<E>(r) << ":" << Val<Ring>::show(F, r) << (F.isZero(r) ? "z" : "");
            if (shadow) {
                E c; F.init(c);
                if (op == 'n' || op == 'm') { GeneralRingNonZeroRandIter<Ring, RI> nz(*shadow); nz.random(c); } else shadow->random(c);
                o << "=" << rawshow<E>(c);
            }
            o << " ";
        }
        return o.str();
    }
    static std::string go(const Args& a) {     // a = p seed size ops
        if (a.size() < 4) return "BAD-LINE";
        static std::unique_ptr<Ring> cur; static std::string curp;
        if (!cur || curp != a[0]) { cur.reset(Mk<Ring>::make(a[0])); curp = a[0]; }
        std::string sz2 = a.size() > 4 ? a[4] : a[2], other_p = (a[0] == "3") ? "5" : "3";
        std::string s1 = once(*cur, pu64(a[1]), a[2], a[3], sz2, other_p);
        std::string s2 = once(*cur, pu64(a[1]), a[2], a[3], sz2, other_p);
        if (s1 != s2) return "NONREPRO " + s1 + " || " + s2;
        return s1;
    }
};
static std::map<std::string, std::string (*)(const Args&)> ringseqs;

// qf <form> <seed> <args>     QField<Rational>::random / nonzerorandom: rnd_s s | nz_s s | rnd_b num den | nz_b num den | rnd_d | nz_d (default s)
static std::string qf_once(const std::string& form, uint64_t seed, const Args& a) {
    g_trace.clear();
    Integer::seeding(seed);
    QField<Rational> Q; GivRandom g(seed);
    Rational r(7, 3);
    if (form == "rnd_s") Q.random(g, r, (int64_t) pi64(a[0]));
    else if (form == "nz_s") Q.nonzerorandom(g, r, (int64_t) pi64(a[0]));
    else if (form == "rnd_d") Q.random(g, r);
    else if (form == "nz_d") Q.nonzerorandom(g, r);
    else if (form == "rnd_b") { Rational b(Integer(a[0].c_str()), Integer(a[1].c_str())); Q.random(g, r, b); }
    else if (form == "nz_b") { Rational b(Integer(a[0].c_str()), Integer(a[1].c_str())); Q.nonzerorandom(g, r, b); }
    else return "UNKNOWN-FORM";
    return S(r.nume()) + " " + S(r.deno()) + " ; " + trace_str();
}
struct QfCtx { std::string form; uint64_t seed; Args a; };
static std::string qf_f(void* c) { QfCtx* x = (QfCtx*) c; return qf_once(x->form, x->seed, x->a); }

// ext <p> <e> <op> <seed> <n> [s]     Extension<GFqDom<int64_t>>: random(g,r) | random(g,r,s) | nonzerorandom(g,r) | nonzerorandom(g,r,s)
//                                     | iter: GIV_ExtensionrandIter(F, seed, size = s), forms random(elt) / operator()(elt)
//   prints per element  "[c0 c1 ...]" (exponents of the base field) and "| state" for the GivRandom forms
//   k > 1: the extension of degree e is built over the BASE FIELD GF(p^k) (constructor Extension(baseField, e)): base cardinality p^k > characteristic
static std::string ext_once(uint64_t p, uint64_t e, const std::string& op, uint64_t seed, int n, int64_t s, uint64_t k) {
    typedef Extension<GFqDom<int64_t> > Ext;
    static std::map<std::pair<uint64_t, std::pair<uint64_t, uint64_t> >, std::unique_ptr<Ext> > cache;      // building the extension searches an irreducible polynomial
    std::unique_ptr<Ext>& slot = cache[std::make_pair(p, std::make_pair(e, k))];
    if (!slot) { if (k > 1) { GFqDom<int64_t> B((GFqDom<int64_t>::Residu_t) p, (GFqDom<int64_t>::Residu_t) k); slot.reset(new Ext(B, (Ext::Residu_t) e)); } else slot.reset(new Ext((Ext::Residu_t) p, (Ext::Residu_t) e)); }
    const Ext& F = *slot;
    const uint64_t bcard = (uint64_t) F.base_field().cardinality();
    std::ostringstream o;
    o << F.order() << " " << F.characteristic();
    GivRandom g(seed);
    GIV_ExtensionrandIter<Ext, Integer> it(F, Integer(seed), Integer(s));        // (field, SEED, SIZE) like every other random iterator (c502f80)
    GIV_ExtensionrandIter<Ext, Integer> cp(it);
    // ONE destination for all n draws, preset to more coefficients than any draw asks for; the sized forms ask for
    // s, 1, s, s+1, s, 1, ... coefficients in turn (sizes going down and up on the same element)
    Ext::Element r((size_t) e + 4, F.base_field().mOne);
    for (int i = 0; i < n; ++i) {
        int64_t si = (i % 2 == 0) ? s : ((i % 4 == 1) ? 1 : s + 1);
        if (op == "random") F.random(g, r);
        else if (op == "random_s") F.random(g, r, (int64_t) si);
        else if (op == "nzrandom") F.nonzerorandom(g, r);
        else if (op == "nzrandom_s") F.nonzerorandom(g, r, (int64_t) si);
        else if (op == "random_b") { Ext::Element b((size_t) si, F.base_field().one); F.random(g, r, b); }
        else if (op == "nzrandom_b") { Ext::Element b((size_t) si, F.base_field().one); F.nonzerorandom(g, r, b); }
        else if (op == "iter") { if (i % 2) it(r); else it.random(r); Ext::Element c((size_t) (i % 3) * e, F.base_field().mOne); cp.random(c); if (c != r) o << " COPY-DIFFERS"; }
        else return "UNKNOWN-OP";
        o << " [";
        for (size_t j = 0; j < r.size(); ++j) {
            if (op == "iter") { int64_t v = -1; if (r[j] >= 0 && (uint64_t) r[j] < bcard) F.base_field().convert(v, r[j]); o << (j ? " " : "") << (long long) v; }   // value
            else o << (j ? " " : "") << (long long) r[j];                                                       // exponent
        }
        o << "]";
    }
    if (op != "iter") o << " | " << g.seed();
    return o.str();
}
// gfqx <w> <p> <e> <seed> <n>     GFqExtFast<int32_t> (w=32) / GFqExt<int64_t> (w=64) ::random(g, r)
//   prints  "q BITS pceil degree p tablesize noncanonical-table-entries MODOUT | x:exponent:quot ... | state"
//   (x = the generator value, quot = (uint64_t)(double(d) / double(p)) for d = x % MODOUT: the floating-point quotient init(double) works with)
// gfqxchk <w> <p> <e> <ih,il>...   add(_high2log[ih], _low2log[il]) for indices computed by the model ("OOB" outside the tables)
template <class FX> struct GfqxOpen : FX {
    typedef typename FX::Residu_t R;
    GfqxOpen(R p, R e) : FX(p, e) {}
    uint64_t bits_() const { return (uint64_t) this->_BITS; }
    uint64_t pceil_() const { return (uint64_t) this->_pceil; }
    uint64_t degree_() const { return (uint64_t) this->_degree; }
    uint64_t modout_() const { return (uint64_t) this->_MODOUT; }
    double dchar_() const { return this->_dcharacteristic; }
    size_t tabsize_() const { return this->_low2log.size() == this->_high2log.size() ? this->_low2log.size() : 0; }
    size_t noncanon_() const {
        size_t bad = 0; uint64_t q = (uint64_t) this->cardinality();
        for (size_t i = 0; i < this->_low2log.size(); ++i) if ((uint64_t) this->_low2log[i] >= q) ++bad;
        for (size_t i = 0; i < this->_high2log.size(); ++i) if ((uint64_t) this->_high2log[i] >= q) ++bad;
        return bad;
    }
    bool at(size_t ih, size_t il, typename FX::Element& r) const {
        if (ih >= this->_high2log.size() || il >= this->_low2log.size()) return false;
        typename FX::Element a = (typename FX::Element) this->_high2log[ih], b = (typename FX::Element) this->_low2log[il];
        this->add(r, a, b); return true;
    }
};
template <class FX> static GfqxOpen<FX>& gfqx_field(uint64_t p, uint64_t e) {
    // one field object per (p, e): the table fields choose their irreducible polynomial when they are built
    static std::map<std::pair<uint64_t, uint64_t>, std::unique_ptr<GfqxOpen<FX> > > cache;
    std::unique_ptr<GfqxOpen<FX> >& slot = cache[std::make_pair(p, e)];
    if (!slot) slot.reset(new GfqxOpen<FX>((typename FX::Residu_t) p, (typename FX::Residu_t) e));
    return *slot;
}
template <class FX> static std::string gfqx_once(uint64_t p, uint64_t e, uint64_t seed, int n) {
    const GfqxOpen<FX>& F = gfqx_field<FX>(p, e);
    GivRandom g(seed);
    std::ostringstream o;
    o << (unsigned long long) F.cardinality() << " " << F.bits_() << " " << F.pceil_() << " " << F.degree_() << " " << (unsigned long long) F.characteristic()
      << " " << F.tabsize_() << " " << F.noncanon_() << " " << F.modout_() << " |";
    for (int i = 0; i < n; ++i) {
        GivRandom h(g);                 // same state: the value the draw is about to consume
        uint64_t x = h();
        typename FX::Element r = (i % 2) ? (typename FX::Element) -1 : std::numeric_limits<typename FX::Element>::max();     // destination not fresh
        F.random(g, r);
        uint64_t d = (uint64_t) ((typename FX::Residu_t) x % (typename FX::Residu_t) F.modout_());
        uint64_t quot = static_cast<uint64_t>(static_cast<double>(d) / F.dchar_());
        o << " " << x << ":" << (long long) r << ":" << quot;
    }
    o << " | " << g.seed();
    return o.str();
}
template <class FX> static std::string gfqxchk_once(uint64_t p, uint64_t e, const Args& idx) {
    const GfqxOpen<FX>& F = gfqx_field<FX>(p, e);
    std::ostringstream o;
    for (size_t k = 0; k < idx.size(); ++k) {
        size_t c = idx[k].find(',');
        typename FX::Element r = 0;
        if (c == std::string::npos || !F.at((size_t) pu64(idx[k].substr(0, c)), (size_t) pu64(idx[k].substr(c + 1)), r)) o << (k ? " " : "") << "OOB";
        else o << (k ? " " : "") << (long long) r;
    }
    return o.str();
}
struct GfqxCtx { int w; uint64_t p, e, seed; int n; };
static std::string gfqx_f(void* c) {
    GfqxCtx* x = (GfqxCtx*) c;
    return x->w == 32 ? gfqx_once<GFqExtFast<int32_t> >(x->p, x->e, x->seed, x->n) : gfqx_once<GFqExt<int64_t> >(x->p, x->e, x->seed, x->n);
}
// gf2ref <op> <seed> <n>      GF2::random / nonzerorandom on a BitReference (std::vector<bool>::reference)
static std::string gf2ref_once(const std::string& op, uint64_t seed, int n) {
    GF2 F; GivRandom g(seed);
    std::vector<bool> v((size_t) n, false);
    std::ostringstream o;
    for (int i = 0; i < n; ++i) {
        if (op == "random") F.random(g, v[(size_t) i]); else if (op == "random_sz") F.random(g, v[(size_t) i], (uint8_t) 2);
        else if (op == "nzrandom") F.nonzerorandom(g, v[(size_t) i]); else return "UNKNOWN-OP";
        o << (v[(size_t) i] ? "1 " : "0 ");
    }
    o << "| " << g.seed();
    return o.str();
}
struct ExtCtx { uint64_t p, e; std::string op; uint64_t seed; int n; int64_t s; uint64_t k; };
static std::string ext_f(void* c) { ExtCtx* x = (ExtCtx*) c; return ext_once(x->p, x->e, x->op, x->seed, x->n, x->s, x->k); }

// ---------------------------------------------------------------- Part C: Integer range constructions
// destinations are never fresh: preset 0 = -77, 1 = 2^200+12345 (four limbs), 2 = -(2^130+7), 3 = 0
static int g_preset = 0;
static Integer preset_int(int k) {
    switch (k % 4) { case 1: return (Integer(1) << 200) + 12345; case 2: return -((Integer(1) << 130) + 7); case 3: return Integer(0); default: return Integer(-77); }
}
// variant: t = <true> template form, f = <false> template form, d = the non-template (default) form
template <class T> static std::string int_T(const std::string& op, char v, const Args& a) {
    // a[0] = the T-typed argument
    T m = IO<T>::parse(a[0]);
    Integer r(preset_int(g_preset));
    if (op == "lt_Tv") { r = (v == 't') ? Integer::random_lessthan<true, T>(m) : (v == 'f') ? Integer::random_lessthan<false, T>(m) : Integer::random_lessthan<T>(m); }
    else if (op == "ex_T") { if (v == 't') Integer::random_exact<true, T>(r, m); else if (v == 'f') Integer::random_exact<false, T>(r, m); else Integer::random_exact<T>(r, m); }
    else if (op == "ex_Tv") { r = (v == 't') ? Integer::random_exact<true, T>(m) : (v == 'f') ? Integer::random_exact<false, T>(m) : Integer::random_exact<T>(m); }
    else if (op == "rnd_T") { if (v == 't') Integer::random<true, T>(r, m); else if (v == 'f') Integer::random<false, T>(r, m); else Integer::random<T>(r, m); }
    else if (op == "rnd_Tv") { r = (v == 't') ? Integer::random<true, T>(m) : (v == 'f') ? Integer::random<false, T>(m) : Integer::random<T>(m); }
    else if (op == "nz_T") { if (v == 't') Integer::nonzerorandom<true, T>(r, m); else if (v == 'f') Integer::nonzerorandom<false, T>(r, m); else Integer::nonzerorandom<T>(r, m); }
    else if (op == "nz_Tv") { r = (v == 't') ? Integer::nonzerorandom<true, T>(m) : (v == 'f') ? Integer::nonzerorandom<false, T>(m) : Integer::nonzerorandom<T>(m); }
    else if (op == "bt_R") { T M = IO<T>::parse(a[1]); Integer::random_between<T>(r, m, M); }
    else if (op == "bt_Rv") { T M = IO<T>::parse(a[1]); r = Integer::random_between<T>(m, M); }
    else return "UNKNOWN-OP";
    return S(r);
}
// Integer-typed T needs separate code: random_exact<..,T> and random_between<R> static_cast<uint64_t>(Integer)
static std::string int_TI(const std::string& op, char v, const Args& a) {
    Integer m(a[0].c_str());
    Integer r(preset_int(g_preset));
    if (op == "rnd_T") { if (v == 't') Integer::random<true, Integer>(r, m); else if (v == 'f') Integer::random<false, Integer>(r, m); else Integer::random<Integer>(r, m); }
    else if (op == "nz_T") { if (v == 't') Integer::nonzerorandom<true, Integer>(r, m); else if (v == 'f') Integer::nonzerorandom<false, Integer>(r, m); else Integer::nonzerorandom<Integer>(r, m); }
    else if (op == "nz_Tv") { r = (v == 't') ? Integer::nonzerorandom<true, Integer>(m) : (v == 'f') ? Integer::nonzerorandom<false, Integer>(m) : Integer::nonzerorandom<Integer>(m); }
    else return "UNKNOWN-OP";
    return S(r);
}

static std::string int_once(const std::string& op, const std::string& var, uint64_t seed, const Args& a) {
    char v = var[0];                // t / f / d
    char sd = var.size() > 1 ? var[1] : 'u';     // seeding form: u = seeding(uint64_t), I = seeding(const Integer&)
    g_trace.clear();
    if (sd == 'I') Integer::seeding(Integer(seed)); else Integer::seeding(seed);
    g_preset = var.size() > 2 ? var[2] - '0' : 0;
    Integer r(preset_int(g_preset));                 // destinations start from a recognisable value
    std::string res;
    if (op == "lt_I") { Integer m(a[0].c_str()); if (v == 't') Integer::random_lessthan<true>(r, m); else if (v == 'f') Integer::random_lessthan<false>(r, m); else Integer::random_lessthan(r, m); }
    else if (op == "lt_2e") { uint64_t n = pu64(a[0]); if (v == 't') Integer::random_lessthan_2exp<true>(r, n); else if (v == 'f') Integer::random_lessthan_2exp<false>(r, n); else Integer::random_lessthan_2exp(r, n); }
    else if (op == "lt_2ev") { uint64_t n = pu64(a[0]); r = (v == 't') ? Integer::random_lessthan_2exp<true>(n) : (v == 'f') ? Integer::random_lessthan_2exp<false>(n) : Integer::random_lessthan_2exp(n); }
    else if (op == "lt_u64") { uint64_t n = pu64(a[0]); if (v == 't') Integer::random_lessthan<true>(r, n); else if (v == 'f') Integer::random_lessthan<false>(r, n); else Integer::random_lessthan(r, n); }
    else if (op == "ex_2e") { uint64_t n = pu64(a[0]); if (v == 't') Integer::random_exact_2exp<true>(r, n); else if (v == 'f') Integer::random_exact_2exp<false>(r, n); else Integer::random_exact_2exp(r, n); }
    else if (op == "ex_I") { Integer s(a[0].c_str()); if (v == 't') Integer::random_exact<true>(r, s); else if (v == 'f') Integer::random_exact<false>(r, s); else Integer::random_exact(r, s); }
    else if (op == "ex_u64") { uint64_t n = pu64(a[0]); if (v == 't') Integer::random_exact<true>(r, n); else if (v == 'f') Integer::random_exact<false>(r, n); else Integer::random_exact(r, n); }
    else if (op == "bt_I") { Integer lo(a[0].c_str()), hi(a[1].c_str()); Integer& q = Integer::random_between(r, lo, hi); if (&q != &r) return "BAD-REF"; }
    else if (op == "bt_Iv") { Integer lo(a[0].c_str()), hi(a[1].c_str()); r = Integer::random_between(lo, hi); }
    else if (op == "bt_2e") { uint64_t m = pu64(a[0]), M = pu64(a[1]); Integer::random_between_2exp(r, m, M); }
    else if (op == "bt_2ev") { uint64_t m = pu64(a[0]), M = pu64(a[1]); r = Integer::random_between_2exp(m, M); }
    else if (op == "bt_u64") { uint64_t m = pu64(a[0]), M = pu64(a[1]); Integer::random_between(r, m, M); }
    else if (op == "bt_u64v") { uint64_t m = pu64(a[0]), M = pu64(a[1]); r = Integer::random_between(m, M); }
    else if (op == "rnd0") { r = (v == 't') ? Integer::random<true>() : (v == 'f') ? Integer::random<false>() : Integer::random(); }
    else if (op == "nz0") { r = Integer::nonzerorandom(); }
    else if (op == "rbool") { r = Integer::RandBool() ? 1 : 0; }
    else if (op == "zr_rnd") { ZRing<Integer> Z; GivRandom g(1); Z.random(g, r, (long) pi64(a[0])); }
    else if (op == "zr_rndI") { ZRing<Integer> Z; GivRandom g(1); Integer b(a[0].c_str()); Z.random(g, r, b); }
    else if (op == "zr_nz") { ZRing<Integer> Z; GivRandom g(1); Z.nonzerorandom(g, r, (long) pi64(a[0])); }
    else if (op == "zr_nzI") { ZRing<Integer> Z; GivRandom g(1); Integer b(a[0].c_str()); Z.nonzerorandom(g, r, b); }
    else {
        // a[0] = type name of T, the rest the arguments
        if (a.empty()) return "BAD-LINE";
        Args b(a.begin() + 1, a.end());
        if (a[0] == "int") res = int_T<int>(op, v, b);
        else if (a[0] == "uint") res = int_T<unsigned int>(op, v, b);
        else if (a[0] == "long") res = int_T<long>(op, v, b);
        else if (a[0] == "ulong") res = int_T<unsigned long>(op, v, b);
        else if (a[0] == "short") res = int_T<short>(op, v, b);
        else if (a[0] == "Integer") res = int_TI(op, v, b);
        else return "UNKNOWN-OP";
        return res + " ; " + trace_str();
    }
    return S(r) + " ; " + trace_str();
}

template <bool U, bool E> static std::string rii_once(uint64_t seed, const std::string& ss, int n) {
    typedef RandomIntegerIterator<U, E> RII;
    g_trace.clear();
    ZRing<Integer> Z;
    std::unique_ptr<RII> it;
    if (ss == "-") it.reset(new RII(Z, seed)); else it.reset(new RII(Z, seed, Integer(ss.c_str())));
    std::ostringstream o;
    o << it->getBitsize() << " " << S(**it);         // the constructor has drawn once
    for (int i = 0; i < n; ++i) {
        Integer a(preset_int(i));
        switch (i % 6) {
        case 0: ++(*it); a = **it; break;
        case 1: it->random(a); break;
        case 2: (*it)(a); break;
        case 3: a = (*it)(); break;
        case 4: a = it->random(); break;
        default: { RII cp(*it); ++cp; a = cp.randomInteger(); } break;
        }
        o << " " << S(a);
    }
    return o.str() + " ; " + trace_str();
}
// mii <seed> <size> <p> <n> [ctor nz]   ctor: 3 = RandIter(F, seed, size), 2 = RandIter(F, seed), 1 = RandIter(F)   nz = 1: the NonZeroRandIter forms too
static std::string mii_once(uint64_t seed, const std::string& size, const std::string& p, int n, int ctor, int nzok) {
    typedef Modular<Integer> MI;
    g_trace.clear();
    MI F(Integer(p.c_str()));
    std::unique_ptr<MI::RandIter> itp;
    if (ctor == 1) itp.reset(new MI::RandIter(F)); else if (ctor == 2) itp.reset(new MI::RandIter(F, (size_t) seed)); else itp.reset(new MI::RandIter(F, (size_t) seed, Integer(size.c_str())));
    MI::RandIter& it = *itp;
    MI::NonZeroRandIter nz(it);
    MI::NonZeroRandIter nz2(nz);
    std::ostringstream o;
    for (int i = 0; i < n; ++i) {
        Integer a(preset_int(i + 1));
        switch (i % (nzok ? 7 : 4)) {
        case 0: it.random(a); break;
        case 1: { Integer& q = it(a); if (&q != &a) return "BAD-REF"; } break;
        case 2: a = it(); break;
        case 3: a = it.random(); break;
        case 4: nz.random(a); break;
        case 5: nz2(a); break;
        default: a = nz(); break;
        }
        o << (i ? " " : "") << S(a);
    }
    return o.str() + " ; " + trace_str();
}

// gmpshare <rii|mii> <seed1> <seed2> <k> <p>   GMP's generator is process-wide: two live iterators A(seed1), B(seed2) share it.
//   run 1: A, 2k draws through A.   run 2: A, k draws, construct B, k more draws through A.   run 3: A, B, k draws through A.
//   prints "run1 / run2 / run3 ; trace of all three runs"
template <class IT, class MK> static std::string gmpshare_runs(MK mk, uint64_t s1, uint64_t s2, int k) {
    g_trace.clear();
    std::ostringstream o;
    for (int run = 1; run <= 3; ++run) {
        std::unique_ptr<IT> A(mk(s1)), B;
        if (run == 3) B.reset(mk(s2));
        int n = (run == 1) ? 2 * k : (run == 2 ? 2 * k : k);
        for (int i = 0; i < n; ++i) {
            if (run == 2 && i == k) B.reset(mk(s2));
            Integer a(preset_int(i)); A->random(a);
            o << (i ? " " : "") << S(a);
        }
        if (run < 3) o << " / ";
    }
    return o.str() + " ; " + trace_str();
}
struct MkRii { ZRing<Integer> Z; RandomIntegerIterator<true, false>* operator()(uint64_t s) { return new RandomIntegerIterator<true, false>(Z, s); } };
struct MkMii { Modular<Integer> F; MkMii(const Integer& p) : F(p) {} Modular<Integer>::RandIter* operator()(uint64_t s) { return new Modular<Integer>::RandIter(F, (size_t) s); } };
struct ShareCtx { std::string cls; uint64_t s1, s2; int k; std::string p; };
static std::string gmpshare_f(void* c) {
    ShareCtx* x = (ShareCtx*) c;
    if (x->cls == "rii") { MkRii m; return gmpshare_runs<RandomIntegerIterator<true, false> >(m, x->s1, x->s2, x->k); }
    MkMii m((Integer(x->p.c_str()))); return gmpshare_runs<Modular<Integer>::RandIter>(m, x->s1, x->s2, x->k);
}

// ---------------------------------------------------------------- Part D: RecInt
template <size_t K> static std::string ru_once(uint64_t seed, int n) {
    RecInt::srand(seed);
    std::mt19937_64 twin; twin.seed(seed);
    std::ostringstream o, l;
    for (int i = 0; i < n; ++i) {
        RecInt::ruint<K> a; if (i % 2 == 0) RecInt::fill_with_1(a);        // destination not fresh: all ones
        RecInt::ruint<K>& q = RecInt::rand(a); if (&q != &a) return "BAD-REF";
        o << (i ? " " : "") << IO<RecInt::ruint<K> >::show(a);
        for (size_t j = 0; j < (size_t(1) << (K - 6)); ++j) l << " " << (unsigned long long) twin();
    }
    return o.str() + " ;" + l.str();
}
template <class Ring> struct RuRun {
    typedef typename Ring::Element E;
    static std::string go(const Args& a) {     // p op seed n
        if (a.size() < 4) return "BAD-LINE";
        Ring F(IO<typename Ring::Residu_t>::parse(a[0]));
        uint64_t seed = pu64(a[2]); int n = atoi(a[3].c_str());
        std::string out[2];
        for (int rep = 0; rep < 2; ++rep) {
            RecInt::srand(seed);
            std::mt19937_64 twin; twin.seed(seed);
            GivRandom g(seed);
            std::ostringstream o;
            for (int i = 0; i < n; ++i) {
                E r; F.init(r); if (i % 2 == 0) RecInt::fill_with_1(r);    // destination not fresh and not canonical (>= p)
                if (a[1] == "random") F.random(g, r); else if (a[1] == "nzrandom") F.nonzerorandom(g, r);
                else if (a[1] == "iter") { typename Ring::RandIter it(F, seed); it.random(r); }
                else return "UNKNOWN-OP";
                Integer z; F.convert(z, r);
                o << (i ? " " : "") << IO<E>::show(r) << ":" << S(z) << (F.isZero(r) ? "z" : "");
            }
            // how many limbs were consumed: advance the twin until it matches the library generator
            std::mt19937_64 probe = RecInt::rand_gen;
            size_t used = 0; std::ostringstream l;
            while (!(twin == probe) && used < 100000) { l << " " << (unsigned long long) twin(); ++used; }
            out[rep] = o.str() + " ;" + l.str();
        }
        if (out[0] != out[1]) return "NONREPRO " + out[0] + " || " + out[1];
        return out[0];
    }
};

// rmint<K, MGI|MGA>: rand(a) / a.random() after init_module(p); prints the stored value and the value converted back
template <size_t K, size_t MG> static std::string rm_once(const std::string& ps, uint64_t seed, int n) {
    typedef RecInt::rmint<K, MG> RM;
    RecInt::ruint<K> p = IO<RecInt::ruint<K> >::parse(ps);
    RM::init_module(p);
    RecInt::srand(seed);
    std::mt19937_64 twin; twin.seed(seed);
    std::ostringstream o, l;
    for (int i = 0; i < n; ++i) {
        RM a; if (i % 3 != 2) RecInt::fill_with_1(a.Value);          // destination not fresh and not reduced
        if (i % 2) a.random(); else RecInt::rand(a);
        Integer v; { RecInt::ruint<K> u = RecInt::get_ruint(a); v = Integer(u); }
        o << (i ? " " : "") << IO<RecInt::ruint<K> >::show(a.Value) << ":" << S(v);
        for (size_t j = 0; j < (size_t(1) << (K - 6)); ++j) l << " " << (unsigned long long) twin();
    }
    return o.str() + " ;" + l.str();
}
template <size_t K> static std::string ri_once(uint64_t seed, int n) {
    RecInt::srand(seed);
    std::mt19937_64 twin; twin.seed(seed);
    std::ostringstream o, l;
    for (int i = 0; i < n; ++i) {
        RecInt::rint<K> a; if (i % 2 == 0) RecInt::fill_with_1(a.Value);
        RecInt::rand(a);
        o << (i ? " " : "") << IO<RecInt::ruint<K> >::show(a.Value);
        for (size_t j = 0; j < (size_t(1) << (K - 6)); ++j) l << " " << (unsigned long long) twin();
    }
    return o.str() + " ;" + l.str();
}
struct RmCtx { int K; int mg; std::string p; uint64_t seed; int n; };
static std::string rm_f(void* c) {
    RmCtx* x = (RmCtx*) c;
    if (x->mg == 2) { switch (x->K) { case 6: return ri_once<6>(x->seed, x->n); case 7: return ri_once<7>(x->seed, x->n); case 8: return ri_once<8>(x->seed, x->n); default: return "UNKNOWN-K"; } }
    if (x->mg == 0) { switch (x->K) { case 6: return rm_once<6, RecInt::MGI>(x->p, x->seed, x->n); case 7: return rm_once<7, RecInt::MGI>(x->p, x->seed, x->n); case 8: return rm_once<8, RecInt::MGI>(x->p, x->seed, x->n); default: return "UNKNOWN-K"; } }
    switch (x->K) { case 6: return rm_once<6, RecInt::MGA>(x->p, x->seed, x->n); case 7: return rm_once<7, RecInt::MGA>(x->p, x->seed, x->n); case 8: return rm_once<8, RecInt::MGA>(x->p, x->seed, x->n); default: return "UNKNOWN-K"; }
}
#define REGU(name, ...) rurings[name] = &RuRun<__VA_ARGS__ >::go

// ---------------------------------------------------------------- main loop with a per-case time limit
static sigjmp_buf jb;
static void on_alarm(int) { siglongjmp(jb, 1); }
static void arm(long ms) { struct itimerval t; t.it_interval.tv_sec = 0; t.it_interval.tv_usec = 0; t.it_value.tv_sec = ms / 1000; t.it_value.tv_usec = (ms % 1000) * 1000; setitimer(ITIMER_PROF, &t, 0); }

static std::string twice(std::string (*f)(void*), void* ctx) {
    std::string s1 = f(ctx), s2 = f(ctx);
    if (s1 != s2) return "NONREPRO " + s1 + " || " + s2;
    return s1;
}
struct IntCtx { std::string op, var; uint64_t seed; Args a; };
static std::string int_f(void* c) { IntCtx* x = (IntCtx*) c; return int_once(x->op, x->var, x->seed, x->a); }
struct RiiCtx { int u, e; uint64_t seed; std::string ss; int n; };
static std::string rii_f(void* c) {
    RiiCtx* x = (RiiCtx*) c;
    if (x->u && x->e) return rii_once<true, true>(x->seed, x->ss, x->n);
    if (x->u) return rii_once<true, false>(x->seed, x->ss, x->n);
    if (x->e) return rii_once<false, true>(x->seed, x->ss, x->n);
    return rii_once<false, false>(x->seed, x->ss, x->n);
}
struct MiiCtx { uint64_t seed; std::string size, p; int n; int ctor, nz; };
static std::string mii_f(void* c) { MiiCtx* x = (MiiCtx*) c; return mii_once(x->seed, x->size, x->p, x->n, x->ctor, x->nz); }
struct RuCtx { int K; uint64_t seed; int n; };
static std::string ru_f(void* c) {
    RuCtx* x = (RuCtx*) c;
    switch (x->K) {
    case 6: return ru_once<6>(x->seed, x->n);
    case 7: return ru_once<7>(x->seed, x->n);
    case 8: return ru_once<8>(x->seed, x->n);
    case 9: return ru_once<9>(x->seed, x->n);
    case 10: return ru_once<10>(x->seed, x->n);
    default: return "UNKNOWN-K";
    }
}

static std::string dispatch(const std::string& kind, const Args& a) {
    if (kind == "lcg") {
        if (a.size() < 3) return "BAD-LINE";
        uint64_t seed = pu64(a[1]); int n = atoi(a[2].c_str());
        std::string s1 = lcg(a[0], seed, n);
        if (seed == 0) return s1;
        std::string s2 = lcg(a[0], seed, n);
        return s1 == s2 ? s1 : "NONREPRO " + s1 + " || " + s2;
    }
    if (kind == "ring" || kind == "poly" || kind == "modru" || kind == "polyseq") {
        if (a.size() < 2) return "BAD-LINE";
        std::map<std::string, Fn>& tb = (kind == "ring") ? rings : (kind == "poly") ? polys : (kind == "polyseq") ? polyseqs : rurings;
        std::map<std::string, Fn>::iterator it = tb.find(a[0]);
        if (it == tb.end()) return "UNKNOWN-RING";
        return it->second(Args(a.begin() + 1, a.end()));
    }
    if (kind == "int") {
        if (a.size() < 3) return "BAD-LINE";
        IntCtx c; c.op = a[0]; c.var = a[1]; c.seed = pu64(a[2]); c.a = Args(a.begin() + 3, a.end());
        return twice(int_f, &c);
    }
    if (kind == "riiseq") {
        if (a.size() < 4) return "BAD-LINE";
        RiiSeqCtx c; c.u = atoi(a[0].c_str()); c.e = atoi(a[1].c_str()); c.seed = pu64(a[2]); c.ss = a[3]; c.ops = Args(a.begin() + 4, a.end());
        return c.seed ? twice(riiseq_f, &c) : riiseq_f(&c);
    }
    if (kind == "ringseq") {
        if (a.size() < 2) return "BAD-LINE";
        std::map<std::string, Fn>::iterator it = ringseqs.find(a[0]);
        if (it == ringseqs.end()) return "UNKNOWN-RING";
        return it->second(Args(a.begin() + 1, a.end()));
    }
    if (kind == "qf") {
        if (a.size() < 2) return "BAD-LINE";
        QfCtx c; c.form = a[0]; c.seed = pu64(a[1]); c.a = Args(a.begin() + 2, a.end());
        return twice(qf_f, &c);
    }
    if (kind == "gf2ref") {
        if (a.size() < 3) return "BAD-LINE";
        std::string s1 = gf2ref_once(a[0], pu64(a[1]), atoi(a[2].c_str())), s2 = gf2ref_once(a[0], pu64(a[1]), atoi(a[2].c_str()));
        return s1 == s2 ? s1 : "NONREPRO " + s1 + " || " + s2;
    }
    if (kind == "gfqx") {
        if (a.size() < 5) return "BAD-LINE";
        GfqxCtx c; c.w = atoi(a[0].c_str()); c.p = pu64(a[1]); c.e = pu64(a[2]); c.seed = pu64(a[3]); c.n = atoi(a[4].c_str());
        return twice(gfqx_f, &c);
    }
    if (kind == "gfqxchk") {
        if (a.size() < 3) return "BAD-LINE";
        Args idx(a.begin() + 3, a.end());
        return atoi(a[0].c_str()) == 32 ? gfqxchk_once<GFqExtFast<int32_t> >(pu64(a[1]), pu64(a[2]), idx) : gfqxchk_once<GFqExt<int64_t> >(pu64(a[1]), pu64(a[2]), idx);
    }
    if (kind == "ext") {
        if (a.size() < 5) return "BAD-LINE";
        ExtCtx c; c.p = pu64(a[0]); c.e = pu64(a[1]); c.op = a[2]; c.seed = pu64(a[3]); c.n = atoi(a[4].c_str()); c.s = a.size() > 5 ? pi64(a[5]) : 0; c.k = a.size() > 6 ? pu64(a[6]) : 1;
        return twice(ext_f, &c);
    }
    if (kind == "rii") {
        if (a.size() < 5) return "BAD-LINE";
        RiiCtx c; c.u = atoi(a[0].c_str()); c.e = atoi(a[1].c_str()); c.seed = pu64(a[2]); c.ss = a[3]; c.n = atoi(a[4].c_str());
        return c.seed ? twice(rii_f, &c) : rii_f(&c);
    }
    if (kind == "mii") {
        if (a.size() < 4) return "BAD-LINE";
        MiiCtx c; c.seed = pu64(a[0]); c.size = a[1]; c.p = a[2]; c.n = atoi(a[3].c_str());
        c.ctor = a.size() > 4 ? atoi(a[4].c_str()) : 3; c.nz = a.size() > 5 ? atoi(a[5].c_str()) : 0;
        return (c.seed && c.ctor != 1) ? twice(mii_f, &c) : mii_f(&c);
    }
    if (kind == "gmpshare") {
        if (a.size() < 5) return "BAD-LINE";
        ShareCtx c; c.cls = a[0]; c.s1 = pu64(a[1]); c.s2 = pu64(a[2]); c.k = atoi(a[3].c_str()); c.p = a[4];
        return twice(gmpshare_f, &c);
    }
    if (kind == "rm") {     // rm <K> <mg: 0 = rmint<K,MGI>, 1 = rmint<K,MGA>, 2 = rint<K>> <p> <seed> <n>
        if (a.size() < 5) return "BAD-LINE";
        RmCtx c; c.K = atoi(a[0].c_str()); c.mg = atoi(a[1].c_str()); c.p = a[2]; c.seed = pu64(a[3]); c.n = atoi(a[4].c_str());
        return twice(rm_f, &c);
    }
    if (kind == "ru") {
        if (a.size() < 3) return "BAD-LINE";
        RuCtx c; c.K = atoi(a[0].c_str()); c.seed = pu64(a[1]); c.n = atoi(a[2].c_str());
        return twice(ru_f, &c);
    }
    return "UNKNOWN-KIND";
}

// fork <ms> <kind> <args...> : the case is executed in a forked child under a CPU-time limit of <ms> (ITIMER_PROF, default action):
//   calls that may divide by zero, write outside a vector or never return.  Prints the child's result line, or "CRASH <signal>",
//   or "TIMEOUT" (the child used up its CPU budget).
static std::string in_child(long ms, const std::string& kind, const Args& a) {
    int fd[2];
    if (pipe(fd) != 0) return "BAD-PIPE";
    std::cout.flush();
    pid_t pid = fork();
    if (pid < 0) return "BAD-FORK";
    if (pid == 0) {
        close(fd[0]);
        signal(SIGPROF, SIG_DFL);
        arm(ms);
        std::string out = dispatch(kind, a);
        size_t off = 0;
        while (off < out.size()) { ssize_t w = write(fd[1], out.data() + off, out.size() - off); if (w <= 0) break; off += (size_t) w; }
        _exit(0);
    }
    close(fd[1]);
    std::string out; char buf[4096]; ssize_t r;
    while ((r = read(fd[0], buf, sizeof buf)) > 0) out.append(buf, (size_t) r);
    close(fd[0]);
    int st = 0; waitpid(pid, &st, 0);
    if (WIFSIGNALED(st)) return WTERMSIG(st) == SIGPROF ? "TIMEOUT" : "CRASH " + std::to_string(WTERMSIG(st));
    if (!WIFEXITED(st) || WEXITSTATUS(st) != 0) return "CRASH exit " + std::to_string(WEXITSTATUS(st));
    return out;
}

int main(int argc, char** argv) {
    typedef __uint128_t u128;
    long limit_ms = argc > 1 ? atol(argv[1]) : 400;
    REG("i8", Modular<int8_t>); REG("u8", Modular<uint8_t>); REG("i16", Modular<int16_t>); REG("u16", Modular<uint16_t>);
    REG("i32", Modular<int32_t>); REG("u32", Modular<uint32_t>); REG("i64", Modular<int64_t>); REG("u64", Modular<uint64_t>);
    REG("i8_u16", Modular<int8_t, uint16_t>); REG("i16_u32", Modular<int16_t, uint32_t>);
    REG("i32_i64", Modular<int32_t, int64_t>); REG("u32_u64", Modular<uint32_t, uint64_t>); REG("i32_u64", Modular<int32_t, uint64_t>);
    REG("u64_u128", Modular<uint64_t, u128>); REG("i64_u128", Modular<int64_t, u128>);
    REG("f", Modular<float>); REG("d", Modular<double>); REG("f_d", Modular<float, double>);
    REG("bi32", ModularBalanced<int32_t>); REG("bi64", ModularBalanced<int64_t>);
    REG("bf", ModularBalanced<float>); REG("bd", ModularBalanced<double>);
    REG("ef", ModularExtended<float>); REG("ed", ModularExtended<double>);
    REG("mg32", Montgomery<int32_t>); REG("log16", Modular<Log16>);
    REG("gfq32", GFqDom<int32_t>); REG("gfq64", GFqDom<int64_t>); REG("gf2", GF2);
    REG("mI", Modular<Integer>);
    REG("zi64", UnparametricZRing<int64_t>); REG("zu64", UnparametricZRing<uint64_t>); REG("zd", UnparametricZRing<double>);
    REGP("i32", Modular<int32_t>); REGP("u64", Modular<uint64_t>); REGP("d", Modular<double>); REGP("bi32", ModularBalanced<int32_t>);
    REGP("bd", ModularBalanced<double>); REGP("mg32", Montgomery<int32_t>); REGP("gfq32", GFqDom<int32_t>); REGP("gfq64", GFqDom<int64_t>);
    REGP("i8", Modular<int8_t>); REGP("log16", Modular<Log16>);
    REGU("ru6", Modular<RecInt::ruint<6> >); REGU("ru7", Modular<RecInt::ruint<7> >); REGU("ru8", Modular<RecInt::ruint<8> >);
    REGU("ru6_7", Modular<RecInt::ruint<6>, RecInt::ruint<7> >); REGU("ru7_8", Modular<RecInt::ruint<7>, RecInt::ruint<8> >);
    REGU("mgru6", Montgomery<RecInt::ruint<6> >); REGU("mgru7", Montgomery<RecInt::ruint<7> >); REGU("mgru8", Montgomery<RecInt::ruint<8> >);

    struct sigaction sa; sa.sa_handler = on_alarm; sigemptyset(&sa.sa_mask); sa.sa_flags = 0; sigaction(SIGPROF, &sa, 0);
    std::string line;
    // bounded cost of hangs and crashes: after the FIRST overrun of a call form that form is not driven any more in this process
    // ("SKIPPED-FORM"); after 6 overruns in all the stream stops ("SKIPPED-STREAM" for every remaining case); after 4 crashes of
    // a form (forked cases) that form is not driven any more.  The check confirms overruns by running the case alone (argv[2] = "solo":
    // no caps) and reports skipped cases as not executed, never as passed.
    bool solo = argc > 2 && std::string(argv[2]) == "solo";
    std::map<std::string, int> overruns, crashes;
    int total_overruns = 0;
    static std::string cur_form;                 // static: read after the siglongjmp
    while (std::getline(std::cin, line)) {
        std::istringstream is(line);
        std::string kind, t; is >> kind;
        if (!is) continue;
        Args a; while (is >> t) a.push_back(t);
        {   // the call form of the case: kind + the operation / form word of that kind
            const Args b = (kind == "fork" && a.size() > 2) ? Args(a.begin() + 2, a.end()) : a;
            const std::string k2 = (kind == "fork" && a.size() > 1) ? a[1] : kind;
            size_t w = (k2 == "ring" || k2 == "poly" || k2 == "modru" || k2 == "ext") ? 2 : (k2 == "lcg" || k2 == "int" || k2 == "qf" || k2 == "gf2ref" || k2 == "gmpshare") ? 0 : (k2 == "rm") ? 1 : (size_t) -1;
            cur_form = k2 + ((w != (size_t) -1 && w < b.size()) ? "/" + b[w] : "") + (k2 == "int" && b.size() > 1 ? "/" + b[1].substr(0, 1) : "");
        }
        if (sigsetjmp(jb, 1)) { ++overruns[cur_form]; ++total_overruns; std::cout << "TIMEOUT" << std::endl; continue; }
        if (!solo && total_overruns >= 6) { std::cout << "SKIPPED-STREAM" << std::endl; continue; }
        if (!solo && (overruns[cur_form] >= 1 || crashes[cur_form] >= 4)) { std::cout << "SKIPPED-FORM " << cur_form << std::endl; continue; }
        if (kind == "fork") {
            if (a.size() < 2) { std::cout << "BAD-LINE\n"; continue; }
            std::string out = in_child(atol(a[0].c_str()), a[1], Args(a.begin() + 2, a.end()));
            if (out == "TIMEOUT") { ++overruns[cur_form]; ++total_overruns; }
            else if (out.compare(0, 5, "CRASH") == 0) ++crashes[cur_form];
            std::cout << out << "\n";
            continue;
        }
        arm((kind == "lcg" || kind == "ext" || kind == "gfqx" || kind == "gfqxchk") ? limit_ms + 5000 : limit_ms);     // GivRandom draws have no loop; long sequences need time to print
        std::string out = dispatch(kind, a);
        arm(0);
        std::cout << out << "\n";
        if (kind == "gfqx" || kind == "gfqxchk") std::cout.flush();       // these two are used in a dialogue (see checks/C20.py)
    }
    return 0;
}
