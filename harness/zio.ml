(* zio.ml: textually prepended to every extracted-model driver.  Converts between the extracted
   Coq integers (Model.z / Model.positive / Model.nat, kept as inductives) and text.
   Zarith is used only here, for parsing/printing; the model itself runs on the extracted types. *)
module ZA = Z
let rec pos_of_za (n : ZA.t) : Model.positive =
  if ZA.equal n ZA.one then Model.XH
  else if ZA.testbit n 0 then Model.XI (pos_of_za (ZA.shift_right n 1))
  else Model.XO (pos_of_za (ZA.shift_right n 1))
let z_of_za (n : ZA.t) : Model.z =
  let s = ZA.sign n in
  if s = 0 then Model.Z0 else if s > 0 then Model.Zpos (pos_of_za n) else Model.Zneg (pos_of_za (ZA.neg n))
let za_of_pos (p : Model.positive) : ZA.t =
  (* iterative: collect bits *)
  let rec go p acc sh = match p with
    | Model.XH -> ZA.logor acc (ZA.shift_left ZA.one sh)
    | Model.XO q -> go q acc (sh + 1)
    | Model.XI q -> go q (ZA.logor acc (ZA.shift_left ZA.one sh)) (sh + 1) in
  go p ZA.zero 0
let za_of_z (x : Model.z) : ZA.t = match x with
  | Model.Z0 -> ZA.zero | Model.Zpos p -> za_of_pos p | Model.Zneg p -> ZA.neg (za_of_pos p)
(* text: decimal, or hex with 0x prefix; optional leading '-' *)
let z_of_string (s : string) : Model.z = z_of_za (ZA.of_string s)
let string_of_z (x : Model.z) : string = ZA.to_string (za_of_z x)
let hex_of_z (x : Model.z) : string = ZA.format "%x" (za_of_z x)
let rec nat_of_int (n : int) : Model.nat = if n <= 0 then Model.O else Model.S (nat_of_int (n - 1))
let rec int_of_nat (n : Model.nat) : int = match n with Model.O -> 0 | Model.S m -> 1 + int_of_nat m
let string_of_bool (b : bool) = if b then "1" else "0"
let split_ws (s : string) : string list =
  List.filter (fun x -> x <> "") (String.split_on_char ' ' (String.trim s))
(* main loop helper: f maps the token list of a line to an output line *)
let run_lines (f : string list -> string) : unit =
  (try
     while true do
       let l = input_line stdin in
       let toks = split_ws l in
       if toks <> [] then begin
         (try print_string (f toks) with e -> print_string ("EXN " ^ Printexc.to_string e));
         print_newline ()
       end
     done
   with End_of_file -> ())
