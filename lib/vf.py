# Common machinery of the givaro verification framework (see DESIGN.md section 1).
# Every check goes through bin/check -> checks/<id>.py -> this module.
import hashlib, json, os, re, shutil, subprocess, sys, time, glob

ROOT = os.path.dirname(os.path.dirname(os.path.abspath(__file__)))
REPO = os.environ.get("VERIF_REPO", "/repo")
BUILD = os.path.join(ROOT, "build")
CACHE = os.path.join(BUILD, "cache")
GUARD = "GIVARO_VERIF"
NCPU = os.cpu_count() or 4

INC_DIRS = ["", "src/kernel/system", "src/kernel/memory", "src/kernel/field", "src/kernel/ring",
            "src/kernel/integer", "src/kernel/rational", "src/kernel", "src/library/poly1",
            "src/library/vector", "src/library/matrix", "src/kernel/bstruct", "src/library/tools",
            "src/kernel/recint", "src/kernel/gmp++"]
# the repository's own flags (tests/Makefile: GIVARO_CXXFLAGS, OPTFLAGS) + the hook guard
CXX = "g++"
BASE_FLAGS = ["-std=gnu++11", "-O2", "-march=native", "-Wall", "-Wno-error", "-DNDEBUG", "-UDEBUG",
              "-DHAVE_CONFIG_H", "-D" + GUARD]
LIB_SOURCES_EXCLUDE = {"src/dummy.C", "src/kernel/gmp++/gmp++_int.C",
                       "src/library/vector/givvector.C", "src/library/matrix/givmatrix.C"}  # not part of libgivaro (Makefile.am)


def log(*a):
    print(*a, file=sys.stderr, flush=True)


def sh(cmd, timeout=1200, cwd=None, env=None, stdin=None):
    """run a command; returns (rc, stdout+stderr).  rc=124 on timeout."""
    e = dict(os.environ)
    if env:
        e.update(env)
    try:
        p = subprocess.run(cmd, cwd=cwd, env=e, input=stdin, stdout=subprocess.PIPE,
                           stderr=subprocess.STDOUT, timeout=timeout,
                           shell=isinstance(cmd, str), universal_newlines=True, errors="replace")
        return p.returncode, p.stdout
    except subprocess.TimeoutExpired as ex:
        out = ex.stdout or ""
        if isinstance(out, bytes):
            out = out.decode("utf-8", "replace")
        return 124, out + "\n[timeout after %ss]" % timeout


def sh2(cmd, timeout=1200, cwd=None, stdin=None):
    """like sh but stdout only (stderr kept separately); returns (rc, stdout, stderr)"""
    try:
        p = subprocess.run(cmd, cwd=cwd, input=stdin, stdout=subprocess.PIPE, stderr=subprocess.PIPE,
                           timeout=timeout, shell=isinstance(cmd, str), universal_newlines=True,
                           errors="replace")
        return p.returncode, p.stdout, p.stderr
    except subprocess.TimeoutExpired as ex:
        return 124, (ex.stdout or b"").decode("utf-8", "replace") if isinstance(ex.stdout, bytes) else (ex.stdout or ""), "[timeout]"


def mkdir(p):
    os.makedirs(p, exist_ok=True)
    return p


def file_hash(paths, extra=""):
    h = hashlib.sha256()
    h.update(extra.encode())
    for p in sorted(paths):
        h.update(p.encode())
        try:
            with open(p, "rb") as f:
                h.update(f.read())
        except OSError:
            h.update(b"<missing>")
    return h.hexdigest()[:24]


def repo_sources():
    out = []
    for root, dirs, files in os.walk(os.path.join(REPO, "src")):
        dirs[:] = [d for d in dirs if not os.path.islink(os.path.join(root, d)) and d != ".libs" and d != ".deps"]
        for f in files:
            if f.endswith((".h", ".inl", ".C", ".tpp", ".hpp")):
                out.append(os.path.join(root, f))
    for f in ("givaro-config.h", "config.h"):
        out.append(os.path.join(REPO, f))
    return out


def inc_flags():
    return ["-I" + os.path.join(REPO, d) if d else "-I" + REPO for d in INC_DIRS]


def build_repo_lib(extra_flags=(), tag="std"):
    """Compile the library's .C files from /repo's *current working tree*, out of tree, with the
    hook guard on.  Cached by the hash of every header/source under /repo/src."""
    srcs = repo_sources()
    key = file_hash(srcs, " ".join(BASE_FLAGS + list(extra_flags)) + tag)
    final = os.path.join(CACHE, "lib-" + key)
    lib = os.path.join(final, "libgivaro_verif.a")
    if os.path.exists(lib):
        try:
            os.utime(final, None)
        except OSError:
            pass
        return lib, ""
    d = mkdir(os.path.join(CACHE, "tmp-lib-%s-%d" % (key, os.getpid())))
    cs = []
    for p in srcs:
        rel = os.path.relpath(p, REPO)
        if p.endswith(".C") and rel not in LIB_SOURCES_EXCLUDE:
            cs.append(p)
    procs = []
    objs = []
    logs = []
    flags = BASE_FLAGS + list(extra_flags) + inc_flags()
    for p in cs:
        o = os.path.join(d, os.path.relpath(p, REPO).replace("/", "_").replace("+", "p") + ".o")
        objs.append(o)
        procs.append((p, subprocess.Popen([CXX] + flags + ["-c", p, "-o", o], stdout=subprocess.PIPE,
                                          stderr=subprocess.STDOUT, universal_newlines=True)))
        if len(procs) >= NCPU:
            q, pr = procs.pop(0)
            out = pr.communicate()[0]
            if pr.returncode != 0:
                logs.append("== %s\n%s" % (q, out))
    for q, pr in procs:
        out = pr.communicate()[0]
        if pr.returncode != 0:
            logs.append("== %s\n%s" % (q, out))
    if logs:
        shutil.rmtree(d, ignore_errors=True)
        return None, "\n".join(logs)
    rc, out = sh(["ar", "rcs", os.path.join(d, "libgivaro_verif.a")] + objs)
    if rc != 0:
        shutil.rmtree(d, ignore_errors=True)
        return None, out
    for o in objs:
        try:
            os.remove(o)
        except OSError:
            pass
    try:
        os.rename(d, final)
    except OSError:
        shutil.rmtree(d, ignore_errors=True)   # somebody else finished first
    prune_cache("lib-", keep=6)
    return lib, ""


def prune_cache(prefix, keep=4, min_age=6 * 3600):
    """drop old cache entries beyond `keep`, but never one touched in the last hours: other checks (possibly run
    against scratch copies of the repository) may be linking against it right now"""
    ds = sorted(glob.glob(os.path.join(CACHE, prefix + "*")), key=os.path.getmtime, reverse=True)
    now = time.time()
    for d in ds[keep:]:
        try:
            if now - os.path.getmtime(d) > min_age:
                shutil.rmtree(d, ignore_errors=True)
        except OSError:
            pass


def build_harness(src, extra_flags=(), link_lib=True, deps=(), timeout=900, name=None):
    """Compile harness/<src> against /repo's current headers (+ library objects).  Returns (binary, log)."""
    srcp = src if os.path.isabs(src) else os.path.join(ROOT, "harness", src)
    lib = None
    if link_lib:
        lib, l = build_repo_lib()
        if lib is None:
            return None, "library build failed:\n" + l
    key = file_hash(repo_sources() + [srcp] + [os.path.join(ROOT, "harness", x) for x in deps],
                    " ".join(extra_flags) + str(link_lib))
    name = name or os.path.splitext(os.path.basename(src))[0]
    d = mkdir(os.path.join(CACHE, "h-%s-%s" % (name, key)))
    b = os.path.join(d, name)
    if os.path.exists(b):
        return b, ""
    tmpb = "%s.tmp%d" % (b, os.getpid())
    cmd = [CXX] + BASE_FLAGS + list(extra_flags) + inc_flags() + ["-I" + os.path.join(ROOT, "harness"), srcp, "-o", tmpb]
    if lib:
        cmd += [lib]
    cmd += ["-lgmpxx", "-lgmp", "-lpthread"]
    rc, out = sh(cmd, timeout=timeout)
    if rc != 0:
        try:
            os.remove(tmpb)
        except OSError:
            pass
        return None, out
    os.rename(tmpb, b)
    prune_cache("h-%s-" % name, keep=4)
    return b, out


# ---------------------------------------------------------------- Coq / OCaml

def coq_dir(area):
    return os.path.join(ROOT, "coq", area)


def coq_make(area, targets=None, timeout=1500, jobs=None, _depth=0):
    """Full .vo build of coq/<area> (coq_makefile project).  Returns (ok, log)."""
    d = coq_dir(area)
    # areas imported read-only (-Q ../Cyy Cyy) are built first (their own check rebuilds them as well)
    if _depth < 3:
        try:
            for l in open(os.path.join(d, "_CoqProject")):
                t = l.split()
                if len(t) >= 3 and t[0] in ("-Q", "-R") and t[1].startswith("../"):
                    dep = os.path.basename(t[1].rstrip("/"))
                    if dep != area and os.path.exists(os.path.join(coq_dir(dep), "_CoqProject")):
                        okd, outd = coq_make(dep, timeout=timeout, jobs=jobs, _depth=_depth + 1)
                        if not okd:
                            return False, "dependency coq/%s failed to build:\n%s" % (dep, outd[-3000:])
        except OSError:
            pass
    if not os.path.exists(os.path.join(d, "Makefile")) or \
            os.path.getmtime(os.path.join(d, "Makefile")) < os.path.getmtime(os.path.join(d, "_CoqProject")):
        rc, out = sh(["coq_makefile", "-f", "_CoqProject", "-o", "Makefile"], cwd=d)
        if rc != 0:
            return False, out
    cmd = ["make", "-k", "-j%d" % (jobs or NCPU)] + (targets or [])
    rc, out = sh(cmd, cwd=d, timeout=timeout)
    if rc != 0 and "inconsistent assumptions" in out:
        # a library this area imports read-only (-Q ../Cyy Cyy) was rebuilt after our .vo files: stale objects, not a
        # broken proof.  Drop our compiled files and build once more.
        for pat in ("*.vo", "*.vos", "*.vok", "*.glob", ".*.aux"):
            for f in glob.glob(os.path.join(d, pat)):
                try:
                    os.remove(f)
                except OSError:
                    pass
        rc, out = sh(cmd, cwd=d, timeout=timeout)
    return rc == 0, out


def write_if_changed(path, text):
    try:
        with open(path) as f:
            if f.read() == text:
                return False
    except OSError:
        pass
    mkdir(os.path.dirname(path))
    with open(path, "w") as f:
        f.write(text)
    return True


def coq_theorems(path):
    """names of the Theorem statements in a Properties file"""
    txt = open(path).read()
    txt = re.sub(r"\(\*.*?\*\)", "", txt, flags=re.S)
    return re.findall(r"^\s*(?:Theorem|Corollary)\s+([A-Za-z0-9_']+)", txt, flags=re.M)


def coq_check_props(area, propfile="Properties.v", timeout=1500, extra_targets=()):
    """Build coq/<area> and capture the Print Assumptions output of the Properties file.
    The Properties file is compiled exactly once: first everything else is built with make, then coqc runs on the
    Properties file itself (writing its .vo and printing the assumptions), then a final make brings anything that depends
    on it up to date.  Returns dict(ok, theorems, assumptions(text), log, forbidden(list))."""
    d = coq_dir(area)
    res = {"ok": False, "theorems": [], "assumptions": {}, "log": "", "forbidden": []}
    res["forbidden"] = forbidden_scan(d)
    pf = os.path.join(d, propfile)
    res["theorems"] = coq_theorems(pf)
    vo = pf[:-2] + ".vo"
    others = []
    try:
        for l in open(os.path.join(d, "_CoqProject")):
            t = l.strip()
            if t.endswith(".v") and not t.startswith("-") and t != propfile:
                others.append(t + "o")
    except OSError:
        pass
    listed = os.path.exists(pf) and any(l.strip() == propfile for l in open(os.path.join(d, "_CoqProject")))
    if not others or not listed:
        # unusual project layout: fall back to a full make followed by a second compile of the Properties file
        ok, out = coq_make(area, timeout=timeout)
    else:
        ok, out = coq_make(area, targets=others, timeout=timeout)
    res["log"] = out[-6000:]
    rc, o = 1, ""
    if os.path.exists(pf):
        args = coqproject_args(d)
        # The Properties file is recompiled unless NOTHING it can depend on changed since the last successful compile:
        # key = contents of every .v file of this area and of the areas it imports (generated parameter files included)
        # + the coqc version.  Same inputs -> same kernel verdict and same Print Assumptions text (this is what make does
        # for every other file).  A fresh clone has no cache and compiles everything.
        key = _coq_sources_key(area)
        cache = os.path.join(d, "." + propfile + ".assumptions")
        cached = None
        if ok and os.path.exists(vo) and os.path.exists(cache):
            try:
                c = json.load(open(cache))
                newest_dep = max([os.path.getmtime(x) for x in glob.glob(os.path.join(d, "**", "*.vo"), recursive=True) if x != vo] or [0])
                if c.get("key") == key and os.path.getmtime(vo) >= newest_dep:
                    cached = c
            except (OSError, ValueError):
                cached = None
        if cached is not None:
            rc, o = 0, cached["out"]
            res["assumptions_from_cache"] = True
        else:
            rc, o = sh(["coqc"] + args + [propfile], cwd=d, timeout=timeout)
            if rc == 0:
                try:
                    json.dump({"key": key, "out": o}, open(cache, "w"))
                except OSError:
                    pass
        res["assumptions"] = parse_assumptions(o, res["theorems"])
        if rc != 0:
            res["log"] += "\n" + o[-3000:]
    if ok and rc == 0:
        ok2, out2 = coq_make(area, timeout=timeout)     # whatever depends on the Properties file; normally a no-op
        if not ok2:
            ok = False
            res["log"] += "\n" + out2[-3000:]
    if ok and rc == 0 and os.path.exists(vo) and not res["forbidden"]:
        res["ok"] = True
    return res


def _coq_sources_key(area, _seen=None):
    """hash of every .v file of coq/<area> and of the areas its _CoqProject imports, plus the coqc version"""
    import hashlib
    _seen = _seen if _seen is not None else set()
    if area in _seen:
        return ""
    _seen.add(area)
    d = coq_dir(area)
    h = hashlib.sha256()
    for p in sorted(glob.glob(os.path.join(d, "**", "*.v"), recursive=True)) + [os.path.join(d, "_CoqProject")]:
        try:
            h.update(os.path.relpath(p, d).encode()); h.update(b"\0"); h.update(open(p, "rb").read()); h.update(b"\0")
        except OSError:
            pass
    try:
        for l in open(os.path.join(d, "_CoqProject")):
            t = l.split()
            if len(t) >= 3 and t[0] in ("-Q", "-R") and t[1].startswith("../"):
                h.update(_coq_sources_key(os.path.basename(t[1].rstrip("/")), _seen).encode())
    except OSError:
        pass
    if not hasattr(_coq_sources_key, "ver"):
        _coq_sources_key.ver = sh(["coqc", "--version"])[1]
    h.update(_coq_sources_key.ver.encode())
    return h.hexdigest()


def coqchk(area, propfile="Properties.v", timeout=900):
    """Independent re-check of the compiled Properties file and everything it depends on (coqchk -o).  The stand-alone
    checker has no VM: developments whose proofs are complete kernel sweeps by vm_compute may exceed the time limit, which is
    recorded (status "timeout") and is not a failure of the proof -- the kernel already accepted it during make."""
    d = coq_dir(area)
    lib = None
    for l in open(os.path.join(d, "_CoqProject")):
        t = l.split()
        if len(t) >= 3 and t[0] in ("-Q", "-R") and t[1] == ".":
            lib = t[2]
    mod = (lib or area) + "." + propfile[:-2].replace("/", ".")
    t0 = time.time()
    rc, out = sh(["coqchk", "-silent", "-o"] + coqproject_args(d) + [mod], cwd=d, timeout=timeout)
    res = {"cmd": "coqchk -silent -o " + " ".join(coqproject_args(d)) + " " + mod, "wall_s": round(time.time() - t0, 1),
           "axioms": "", "unsafe": False, "output": out[-1500:]}
    if rc == 0:
        m = re.search(r"\* Axioms:\s*(.*?)\n\s*\n", out, flags=re.S)
        res["axioms"] = " ".join(m.group(1).split()) if m else "?"
        others = re.findall(r"\* (?:Constants/Inductives relying on [^:]*|Inductives whose positivity is assumed):\s*(\S+)", out)
        res["unsafe"] = any(o != "<none>" for o in others)
        res["status"] = "ok"
    elif time.time() - t0 >= timeout - 2 or rc in (124, -9, -15):
        res["status"] = "timeout"
    else:
        res["status"] = "failed"
    return res


def coqproject_args(d):
    args = []
    for l in open(os.path.join(d, "_CoqProject")):
        t = l.split()
        if t and t[0] in ("-Q", "-R") and len(t) >= 3:
            args += t[:3]
        elif t and t[0] == "-arg":
            args += t[1:]
    return args


def parse_assumptions(out, theorems):
    """coqc prints, for each `Print Assumptions t.`, either 'Closed under the global context' or
    'Axioms:' followed by the list.  We return them in order, keyed by theorem name."""
    blocks = re.split(r"(?=Closed under the global context|Axioms:)", out)
    blocks = [b.strip() for b in blocks if b.startswith("Closed under") or b.startswith("Axioms:")]
    res = {}
    for i, t in enumerate(theorems):
        if i < len(blocks):
            b = blocks[i]
            if b.startswith("Closed"):
                res[t] = "Closed under the global context"
            else:
                names = re.findall(r"^([A-Za-z0-9_.']+)\s*:", b, flags=re.M)
                res[t] = "Axioms: " + ", ".join(names)
        else:
            res[t] = "?"
    return res


FORBIDDEN = re.compile(r"\b(Admitted|admit|Axiom|Axioms|Parameter|Parameters|Conjecture|Abort All|Unset Guard Checking|"
                       r"bypass_check|Unset Universe Checking|Unset Positivity Checking|Admit Obligations)\b")


def forbidden_scan(d):
    bad = []
    for p in glob.glob(os.path.join(d, "**", "*.v"), recursive=True):
        txt = open(p).read()
        txt = re.sub(r"\(\*.*?\*\)", "", txt, flags=re.S)
        for m in FORBIDDEN.finditer(txt):
            line = txt.count("\n", 0, m.start()) + 1
            bad.append("%s:%d:%s" % (os.path.relpath(p, ROOT), line, m.group(1)))
        # Variable / Hypothesis / Context outside a Section declare axioms: track Section/Module nesting
        stack = []
        for m in re.finditer(r"^[ \t]*(?:(?:Local|Global|Polymorphic|#\[[^\]]*\])\s+)*(Section|Module(?:\s+Type)?|End|Variables?|Hypothes[ie]s|Context)\b\s*([A-Za-z0-9_']*)([^.]*)\.",
                             txt, flags=re.M):
            kw, name, rest = m.group(1), m.group(2), m.group(3)
            if kw == "Section":
                stack.append("S")
            elif kw.startswith("Module"):
                if ":=" not in rest:          # `Module M := N.` opens nothing
                    stack.append("M")
            elif kw == "End":
                if stack:
                    stack.pop()
            elif "S" not in stack:
                line = txt.count("\n", 0, m.start()) + 1
                bad.append("%s:%d:%s outside a Section" % (os.path.relpath(p, ROOT), line, kw))
    return bad


def ocaml_build(area, driver="driver.ml", extracted=("model.mli", "model.ml"), out="driver"):
    """Compile the extracted model + harness/zio.ml + driver in coq/<area>/ocaml.  Returns (binary, log)."""
    d = os.path.join(coq_dir(area), "ocaml")
    zio = os.path.join(ROOT, "harness", "zio.ml")
    files = [os.path.join(d, f) for f in list(extracted) + [driver]] + [zio]
    for f in files:
        if not os.path.exists(f):
            return None, "missing " + f
    key = file_hash(files)
    b = os.path.join(d, out + "-" + key)
    if os.path.exists(b):
        return b, ""
    for old in glob.glob(os.path.join(d, out + "-*")):
        os.remove(old)
    full = os.path.join(d, "full_" + driver)
    with open(full, "w") as f:
        f.write(open(zio).read() + "\n" + open(os.path.join(d, driver)).read())
    cmd = ["ocamlfind", "ocamlopt", "-package", "zarith", "-linkpkg", "-O3", "-w", "-a"] + list(extracted) + ["full_" + driver, "-o", b]
    rc, o = sh(cmd, cwd=d, timeout=600)
    for junk in glob.glob(os.path.join(d, "*.cm[ix]")) + glob.glob(os.path.join(d, "*.o")):
        os.remove(junk)
    if rc != 0:
        return None, o
    return b, o


# ---------------------------------------------------------------- PRNG (one state per run)

class Rng:
    """SplitMix64; every random choice of a check derives from VERIF_SEED through this."""
    M = (1 << 64) - 1

    def __init__(self, seed):
        # the seed is mixed through one output step: states of consecutive seeds must not lie on the same
        # additive orbit (seed*G + c would make Rng(s+1) the stream of Rng(s) shifted by one draw)
        self.s = (seed * 0x9E3779B97F4A7C15 + 0x1234567) & self.M
        self.s = (self.next() ^ (seed * 0xD1342543DE82EF95)) & self.M

    def next(self):
        self.s = (self.s + 0x9E3779B97F4A7C15) & self.M
        z = self.s
        z = ((z ^ (z >> 30)) * 0xBF58476D1CE4E5B9) & self.M
        z = ((z ^ (z >> 27)) * 0x94D049BB133111EB) & self.M
        return z ^ (z >> 31)

    def below(self, n):
        if n <= 0:
            return 0
        bits = n.bit_length() + 64
        v = 0
        for _ in range((bits + 63) // 64):
            v = (v << 64) | self.next()
        return v % n

    def range(self, lo, hi):  # inclusive
        return lo + self.below(hi - lo + 1)

    def choice(self, xs):
        return xs[self.below(len(xs))]

    def bits(self, n):
        return self.below(1 << n) if n > 0 else 0

    def chance(self, num, den):
        return self.below(den) < num

    def shuffle(self, xs):
        for i in range(len(xs) - 1, 0, -1):
            j = self.below(i + 1)
            xs[i], xs[j] = xs[j], xs[i]


LIMB_VALUES = [0, 1, 2, 1 << 63, (1 << 64) - 1, (1 << 63) - 1, (1 << 32), (1 << 32) - 1, (1 << 63) + 1, (1 << 64) - 2]


def limbs_value(rng, nlimbs):
    """value of nlimbs 64-bit limbs each drawn from {0,1,2^63,2^64-1,...,random}"""
    v = 0
    mode = rng.below(4)
    for i in range(nlimbs):
        if mode == 0 or rng.chance(1, 2):
            l = rng.choice(LIMB_VALUES)
        else:
            l = rng.bits(64)
        v |= l << (64 * i)
    return v


WORD_EDGES = [0, 1, -1, 2, -2, 3, -3, 2**31 - 1, 2**31, -2**31, -2**31 - 1, 2**32 - 1, 2**32, 2**32 + 1, -2**32,
              2**63 - 1, 2**63, -2**63, -2**63 - 1, 2**64 - 1, 2**64, 2**64 + 1, -2**64, -2**64 + 1, -2**64 - 1]


def structured_int(rng, maxlimbs=4, signed=True):
    k = rng.below(10)
    if k < 3:
        v = rng.choice(WORD_EDGES)
        return v if signed else abs(v)
    if k < 5:
        v = rng.bits(rng.range(1, 64))
    elif k < 8:
        v = limbs_value(rng, rng.range(1, maxlimbs))
    else:
        v = rng.bits(rng.range(1, 64 * maxlimbs))
    if signed and rng.chance(1, 2):
        v = -v
    return v


# ---------------------------------------------------------------- verdicts / evidence

def seed_env():
    try:
        return int(os.environ.get("VERIF_SEED", "1"))
    except ValueError:
        return 1


def load_known():
    p = os.path.join(ROOT, "known_findings.json")
    if not os.path.exists(p):
        return []
    return json.load(open(p)).get("findings", [])


class Check:
    """Collects what a run did and turns it into exit status, VIOLATION / KNOWN-FINDING lines and the
    evidence file.  Policy (DESIGN 1.1):
      * concrete failing inputs (the implementation disagrees with the specification oracle) are matched
        against known_findings.json (status "known") by property + site + class; unmatched -> VIOLATION;
      * a broken proof obligation / correspondence without a concrete failing input ->
        VIOLATION ... no-failing-input-found."""

    def __init__(self, pid, tier, level="proof"):
        self.pid, self.tier, self.level = pid, tier, level
        self.seed = seed_env()
        self.t0 = time.time()
        self.cov = {"evaluations": 0, "distinct_nontrivial": 0, "rule": "", "samples": [],
                    "obligations": 0, "discharged": 0, "checker_cmd": "", "trusted_base": []}
        self.assumptions = []
        self.failing = []      # dicts: site, klass, case, expected, observed, detail
        self.broken = []       # dicts: what (theorem / correspondence stream), detail
        self.notes = []
        self.distinct = set()

    # --- bookkeeping
    def count(self, case_key, nontrivial=True):
        self.cov["evaluations"] += 1
        if nontrivial:
            self.distinct.add(case_key)

    def sample(self, s, limit=12):
        if len(self.cov["samples"]) < limit:
            self.cov["samples"].append(s)

    def fail_input(self, site, klass, case, expected=None, observed=None, detail=""):
        self.failing.append({"site": site, "klass": klass, "case": case, "expected": expected,
                             "observed": observed, "detail": detail})

    def broke(self, what, detail=""):
        self.broken.append({"what": what, "detail": detail[-4000:]})

    def proof_result(self, res, area, propfile="Properties.v"):
        """account for a coq_check_props result"""
        n = len(res["theorems"])
        self.cov["obligations"] += n
        cmd = "cd coq/%s && coq_makefile -f _CoqProject -o Makefile && make -k && coqc %s" % (area, propfile)
        self.cov["checker_cmd"] = (self.cov["checker_cmd"] + " ; " if self.cov["checker_cmd"] else "") + cmd
        if res["ok"]:
            self.cov["discharged"] += n
            self.cov.setdefault("print_assumptions", {}).update(res["assumptions"])
            if self.tier == "thorough" and os.environ.get("VERIF_COQCHK", "1") != "0":
                self.cov.setdefault("coqchk", {})[area + "/" + propfile] = coqchk(area, propfile)
                r = self.cov["coqchk"][area + "/" + propfile]
                if r["status"] == "failed":
                    self.broke("coqchk rejects coq/%s (%s)" % (area, propfile), r["output"])
                else:
                    # coqchk -o lists the axioms of every LOADED library (e.g. the real-number axioms when Psatz/Lra is
                    # required), not those a theorem depends on (Print Assumptions says that).  Standard-library axioms are
                    # recorded; an axiom from any other namespace, or a switched-off kernel check, is a broken obligation.
                    own = [a for a in r["axioms"].split() if a not in ("<none>", "?") and not a.startswith("Coq.")]
                    if r["status"] == "ok" and (own or r["unsafe"]):
                        self.broke("coqchk reports non-standard-library axioms or unsafe constants in coq/%s (%s)" % (area, propfile), r["output"])
        else:
            if res["forbidden"]:
                self.broke("forbidden construct in coq/%s: %s" % (area, ", ".join(res["forbidden"][:5])))
            else:
                self.broke("Coq development coq/%s (%s) no longer checks" % (area, propfile), res["log"])

    # --- finishing
    def finish(self):
        known = [k for k in load_known() if k.get("property") == self.pid and k.get("status") == "known"]
        unknown, printed = [], set()
        for f in self.failing:
            hit = None
            for k in known:
                if k.get("site") == f["site"] and (k.get("klass") in (None, "*", f["klass"])):
                    hit = k
                    break
            if hit:
                key = (hit["site"], hit.get("klass"))
                if key not in printed:
                    printed.add(key)
                    print("KNOWN-FINDING: property=%s %s [%s] %s" % (self.pid, hit["site"], hit.get("klass", "*"), hit.get("what", "")))
            else:
                unknown.append(f)
        self.cov["distinct_nontrivial"] = len(self.distinct)
        viol = 0
        rdir = mkdir(os.path.join(ROOT, "replays"))
        if unknown:
            viol = len(unknown)
            rp = os.path.join(rdir, "%s-%s.json" % (self.pid, self.tier))
            json.dump({"property": self.pid, "seed": self.seed, "failing_inputs": unknown[:50],
                       "broken": self.broken}, open(rp, "w"), indent=1, default=str)
            print("VIOLATION property=%s replay=%s" % (self.pid, rp))
        elif self.broken:
            # a broken obligation that is fully explained by known findings only is not possible here:
            # known findings are encoded as *_refuted theorems, so the development still checks.
            viol = len(self.broken)
            rp = os.path.join(rdir, "%s-%s.json" % (self.pid, self.tier))
            json.dump({"property": self.pid, "seed": self.seed, "failing_inputs": [],
                       "no_longer_checks": self.broken}, open(rp, "w"), indent=1, default=str)
            print("VIOLATION property=%s replay=%s no-failing-input-found" % (self.pid, rp))
        ev = {"property_id": self.pid, "tier": self.tier, "seed": self.seed, "level": self.level,
              "coverage": self.cov, "assumptions": self.assumptions, "wall_s": round(time.time() - self.t0, 2),
              "violations": viol}
        if self.notes:
            ev["coverage"]["notes"] = self.notes
        ev["coverage"]["known_findings_hit"] = sorted("%s[%s]" % k for k in printed)
        mkdir(os.path.join(ROOT, "evidence"))
        json.dump(ev, open(os.path.join(ROOT, "evidence", self.pid + ".json"), "w"), indent=1, default=str)
        return 1 if viol else 0


def run_lines(binary, text, timeout=1200, args=()):
    rc, out, err = sh2([binary] + list(args), stdin=text, timeout=timeout)
    return rc, out.splitlines(), err
